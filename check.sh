#!/bin/bash
# /verif/check.sh <property> <quick|thorough>   run the check of one property
# /verif/check.sh replay <file>                 re-execute a replay file
# /verif/check.sh selftest [n]                  determinism self-test of the simulator
# /verif/check.sh build <dir>                   only build the binaries into <dir>
#
# Every invocation rebuilds from /repo's CURRENT WORKING TREE: the non-test sources are
# copied to a scratch directory outside /repo and /verif, instrumented there (map-order,
# disk and progress seams; DESIGN.md 3.1), and the simulator is linked against that copy.
# Exit codes: 0 held / 1 VIOLATION printed / 2 infrastructure (tree does not build, ...).
# (the whole script is one function so that bash parses it completely before running:
#  editing the file while a long check runs cannot corrupt that run)
main() {
set -u
export GOFLAGS=-mod=mod GOPROXY=off GOSUMDB=off GOTOOLCHAIN=local
VERIF="$(cd "$(dirname "$0")" && pwd)"
REPO="${VERIF_REPO:-/repo}"
SEED="${VERIF_SEED:-1}"
WORKERS="${VERIF_WORKERS:-$(nproc)}"

mode="${1:-}"
arg="${2:-quick}"
if [ -z "$mode" ]; then
  echo "usage: $0 <property> <quick|thorough> | replay <file> | selftest | build <dir>" >&2
  exit 2
fi

scratch="$(mktemp -d /var/tmp/verif.XXXXXX)" || exit 2
cleanup() { rm -rf "$scratch"; }
trap cleanup EXIT

infra() { echo "INFRASTRUCTURE: $*" >&2; exit 2; }

build() {
  local out="$1"
  if [ ! -x "$VERIF/bin/instrument" ] || [ "$VERIF/sim/cmd/instrument/main.go" -nt "$VERIF/bin/instrument" ]; then
    mkdir -p "$VERIF/bin"
    (cd "$VERIF/sim" && go build -o "$VERIF/bin/instrument" ./cmd/instrument) || infra "cannot build the instrumenter"
  fi
  for kind in inst plain; do
    mkdir -p "$scratch/$kind"
    cp "$REPO/go.mod" "$scratch/$kind/" || infra "no go.mod in $REPO"
    if [ "$kind" = plain ]; then
      # the command-line front end (package main in the repository root): built as is and
      # run as a subprocess for a sample of the compilations (config loading, flag parsing, file I/O)
      for f in "$REPO"/*.go; do case "$f" in *_test.go) ;; *) [ -f "$f" ] && cp "$f" "$scratch/plain/";; esac; done
    fi
    # every package directory of the module, at any depth (internal/..., nested packages)
    (cd "$REPO" && find . -mindepth 2 -name '*.go' ! -name '*_test.go' ! -path './.*' ! -path '*/testdata/*' ! -path './vendor/*' -print) | while read -r f; do
      mkdir -p "$scratch/$kind/$(dirname "$f")"
      cp "$REPO/$f" "$scratch/$kind/$f"
    done
  done
  "$VERIF/bin/instrument" -src "$scratch/inst" -hook "$VERIF/sim/simhook_src/simhook.go" -report "$scratch/instrument.json" || infra "instrumenter failed (working tree does not parse / type-check)"
  "$VERIF/bin/instrument" -plain -src "$scratch/plain" -hook "$VERIF/sim/simhook_src/simhook.go" || infra "instrumenter failed on plain copy"
  for kind in inst plain; do
    cat > "$scratch/harness.$kind.mod" <<EOF
module verifsim

go 1.21

require github.com/huderlem/poryscript v0.0.0

replace github.com/huderlem/poryscript => $scratch/$kind
EOF
    : > "$scratch/harness.$kind.sum"
  done
  (cd "$VERIF/sim" && go build -modfile="$scratch/harness.inst.mod" -o "$out/verifsim" ./cmd/verifsim) || infra "simulator does not build against the instrumented working tree"
  (cd "$VERIF/sim" && go build -modfile="$scratch/harness.plain.mod" -o "$out/verifsim-plain" ./cmd/verifsim) || infra "simulator does not build against the plain working tree"
  if ls "$scratch/plain"/*.go >/dev/null 2>&1; then
    (cd "$scratch/plain" && go build -o "$out/poryscript-cli" .) || infra "the command-line front end (package main) does not build"
  fi
  [ "$out" = "$scratch" ] || cp "$scratch/instrument.json" "$out/instrument.json"
}

case "$mode" in
  build)
    mkdir -p "$arg" && build "$arg" && echo "built into $arg"
    exit 0 ;;
  replay)
    build "$scratch"
    VERIF_CLI="$scratch/poryscript-cli" "$scratch/verifsim" replay "$arg"
    exit $? ;;
  selftest)
    build "$scratch"
    "$VERIF/selftest.sh" "$scratch/verifsim" "${2:-200}"
    exit $? ;;
esac

prop="$mode"
tier="$arg"
build "$scratch"
EVD="${VERIF_EVIDENCE_DIR:-$VERIF/evidence}"; RPD="${VERIF_REPLAY_DIR:-$VERIF/replays}"
mkdir -p "$EVD" "$RPD" "$scratch/work"
VERIF_CLI="$scratch/poryscript-cli" "$scratch/verifsim" run -prop "$prop" -tier "$tier" -seed "$SEED" -workers "$WORKERS" \
  -evidence "$EVD/$prop.json" -replays "$RPD" -known "$VERIF/known_findings.json" \
  -scratch "$scratch/work" -plain "$scratch/verifsim-plain" -instr-report "$scratch/instrument.json" ${VERIF_COUNT:+-count "$VERIF_COUNT"}
return $?
}
main "$@"
exit $?

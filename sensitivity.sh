#!/bin/bash
# Sensitivity / false-alarm test (DESIGN.md 3.6, 9): applies every /verif/mutants/*.patch
# (and, with "seeded", every /verif/seeded/*/patch.diff) to a scratch copy of /repo and runs
# the quick check of the targeted property against it. 'break' edits must give exit 1,
# 'keep' edits (behaviour-preserving) must give exit 0 on every claimed property.
# usage: sensitivity.sh [mutants|seeded|all] [name-filter]
main() {
set -u
VERIF="$(cd "$(dirname "$0")" && pwd)"
what="${1:-mutants}"; filter="${2:-}"
out="$VERIF/sensitivity_results.$what.jsonl"; : > "$out.tmp"
work="$(mktemp -d /var/tmp/verif.sens.XXXXXX)"; trap 'rm -rf "$work"' EXIT
run_one() { # name patch prop expect
  local name="$1" patch="$2" prop="$3" expect="$4"
  rm -rf "$work/repo"; mkdir -p "$work/repo"
  (cd /repo && git archive HEAD) | tar -x -C "$work/repo"
  if ! (cd "$work/repo" && patch -p1 -s < "$patch"); then echo "{\"name\":\"$name\",\"error\":\"patch does not apply\"}" >> "$out.tmp"; return; fi
  local props="${prop//,/ }"; [ "$prop" = ALL ] && props="C01 C02 C03 C05 C11 C17 C18"
  for p in $props; do
    local t0=$(date +%s)
    VERIF_REPO="$work/repo" VERIF_EVIDENCE_DIR="$work/evidence" VERIF_REPLAY_DIR="$work/replays" "$VERIF/check.sh" "$p" quick > "$work/log" 2>&1
    local rc=$?
    local ok=false
    if [ "$expect" = break ] && [ $rc = 1 ]; then ok=true; fi
    if [ "$expect" = keep ] && [ $rc = 0 ]; then ok=true; fi
    local first="$(grep -m1 -A1 '^VIOLATION' "$work/log" | tail -1 | cut -c1-200 | tr '"\\' "' ")"
    echo "{\"name\":\"$name\",\"property\":\"$p\",\"expect\":\"$expect\",\"exit\":$rc,\"ok\":$ok,\"seconds\":$(( $(date +%s) - t0 )),\"first\":\"$first\"}" | tee -a "$out.tmp"
  done
}
if [ "$what" = mutants ] || [ "$what" = all ]; then
  python3 -c "
import json
for m in json.load(open('$VERIF/mutants/index.json')): print(m['name'],m['property'],m['expect'])" | while read name prop expect; do
    case "$name" in *"$filter"*) run_one "$name" "$VERIF/mutants/$name.patch" "$prop" "$expect";; esac
  done
fi
if [ "$what" = seeded ] || [ "$what" = all ]; then
  for d in "$VERIF"/seeded/*/; do
    [ -f "$d/meta.json" ] || continue
    name="seeded/$(basename "$d")"
    prop="$(python3 -c "import json;print(json.load(open('$d/meta.json'))['property'])")"
    case "$name" in *"$filter"*) run_one "$name" "$d/patch.diff" "$prop" break;; esac
  done
fi
mv "$out.tmp" "$out"
python3 - "$out" <<'PY'
import json,sys
rows=[json.loads(l) for l in open(sys.argv[1])]
bad=[r for r in rows if not r.get('ok')]
print(f"{len(rows)} checks, {len(bad)} unexpected")
for r in bad: print("UNEXPECTED",r)
PY
}
main "$@"

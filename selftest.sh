#!/bin/bash
# Determinism self-test of the simulator (DESIGN.md 3.6): the same campaign slice must
# give the same per-run digests in fresh processes, across GOMAXPROCS 1/4/16 and
# worker counts 1/5/16 (a run's result may not depend on which worker executed it or on
# what ran before it in that worker). usage: selftest.sh <verifsim binary> [runs]
set -u
BIN="$1"; N="${2:-200}"
tmp="$(mktemp -d /var/tmp/verif.selftest.XXXXXX)"; trap 'rm -rf "$tmp"' EXIT
fail=0
for prop in C01 C02 C03 C05 C11 C17 C18; do
  n=$N; case $prop in C17) n=$((N/4));; C02|C03) n=$((N/2));; esac
  ref=""
  for cfg in "1 1" "4 5" "16 16" "16 3"; do
    set -- $cfg; gmp=$1; w=$2
    # per-run digests: run every index as its own single-run campaign slice is too slow;
    # instead compare the per-worker digests after normalising the partition: use -digest
    # with worker count w and fold the run-indexed digests.
    out=$(GOMAXPROCS=$gmp "$BIN" run -prop $prop -tier quick -seed "${VERIF_SEED:-1}" -count $n -workers $w -digest -scratch "$tmp" -replays "$tmp/replays" -known /nonexistent -perrun 2>/dev/null | sort | sha256sum | cut -c1-16)
    lines=$(GOMAXPROCS=$gmp "$BIN" run -prop $prop -tier quick -seed "${VERIF_SEED:-1}" -count $n -workers $w -digest -scratch "$tmp" -replays "$tmp/replays" -known /nonexistent -perrun 2>/dev/null | wc -l)
    if [ "$lines" != "$n" ]; then echo "selftest: expected $n per-run digests for $prop, got $lines"; fail=1; fi
    if [ -z "$ref" ]; then ref="$out"; fi
    if [ "$out" != "$ref" ]; then echo "NONDETERMINISM property=$prop GOMAXPROCS=$gmp workers=$w digest=$out expected=$ref"; fail=1; fi
  done
  echo "selftest $prop runs=$n digest=$ref"
done
[ $fail = 0 ] && echo "selftest: deterministic" || exit 2

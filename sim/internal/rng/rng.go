// Package rng: one integer decides everything. All randomness of the simulator is
// derived from VERIF_SEED through splitmix64-based streams and keyed hashes.
package rng

import "math/bits"

func Mix(x uint64) uint64 {
	x += 0x9e3779b97f4a7c15
	x = (x ^ (x >> 30)) * 0xbf58476d1ce4e5b9
	x = (x ^ (x >> 27)) * 0x94d049bb133111eb
	return x ^ (x >> 31)
}

// HashStr is FNV-1a 64 followed by a mix.
func HashStr(s string) uint64 {
	h := uint64(0xcbf29ce484222325)
	for i := 0; i < len(s); i++ {
		h ^= uint64(s[i])
		h *= 0x100000001b3
	}
	return Mix(h)
}

// H combines a seed with any number of 64-bit words.
func H(seed uint64, words ...uint64) uint64 {
	h := Mix(seed)
	for _, w := range words {
		h = Mix(h ^ bits.RotateLeft64(w, 23) ^ 0x51afd7ed558ccd)
		h = Mix(h + w)
	}
	return h
}

// Sub derives a named sub-stream seed.
func Sub(seed uint64, name string) uint64 { return H(seed, HashStr(name)) }

// RunSeed is the seed of run i of a property under VERIF_SEED.
func RunSeed(verifSeed uint64, property string, i uint64) uint64 {
	return H(verifSeed, HashStr(property), i)
}

// R is a splitmix64 stream.
type R struct{ s uint64 }

func New(seed uint64) *R { return &R{s: seed} }

// Fork derives an independent stream from the current state without consuming a draw.
func (r *R) Fork(name string) *R { return New(H(r.s, HashStr(name))) }

func (r *R) U64() uint64 {
	r.s += 0x9e3779b97f4a7c15
	x := r.s
	x = (x ^ (x >> 30)) * 0xbf58476d1ce4e5b9
	x = (x ^ (x >> 27)) * 0x94d049bb133111eb
	return x ^ (x >> 31)
}

// Intn returns a value in [0,n); n<=0 returns 0.
func (r *R) Intn(n int) int {
	if n <= 1 {
		return 0
	}
	return int(r.U64() % uint64(n))
}

// Range returns a value in [lo,hi].
func (r *R) Range(lo, hi int) int {
	if hi <= lo {
		return lo
	}
	return lo + r.Intn(hi-lo+1)
}

func (r *R) Bool() bool { return r.U64()&1 == 1 }

// P returns true with probability p.
func (r *R) P(p float64) bool { return float64(r.U64()>>11)/float64(1<<53) < p }

func (r *R) Float() float64 { return float64(r.U64()>>11) / float64(1<<53) }

// Perm returns a random permutation of 0..n-1.
func (r *R) Perm(n int) []int {
	p := make([]int, n)
	for i := range p {
		p[i] = i
	}
	for i := n - 1; i > 0; i-- {
		j := r.Intn(i + 1)
		p[i], p[j] = p[j], p[i]
	}
	return p
}

func Pick[T any](r *R, xs []T) T { return xs[r.Intn(len(xs))] }

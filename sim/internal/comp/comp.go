// Package comp drives the REAL compiler (lexer -> parser -> emitter of the scratch copy of
// /repo) through its public library API, the way main.go and the language server do, and
// records everything the oracles need: output / error value / recovered panic, progress
// counters from the simhook seam, and the map-order / disk seam activity.
package comp

import (
	"fmt"
	"sort"
	"strings"

	"github.com/huderlem/poryscript/emitter"
	"github.com/huderlem/poryscript/lexer"
	"github.com/huderlem/poryscript/parser"
	"github.com/huderlem/poryscript/simhook"
)

// AutoVar mirrors one entry of command_config.json.
type AutoVar struct {
	VarName string `json:"var_name,omitempty"`
	ArgPos  *int   `json:"var_name_arg_position,omitempty"`
}

// Options are the knobs of one compilation (CLI flags of main.go).
type Options struct {
	Optimize    bool               `json:"optimize"`
	LineMarkers bool               `json:"line_markers"`
	Path        string             `json:"path"`
	FontPath    string             `json:"font_path"`
	DefaultFont string             `json:"default_font"`
	MaxLen      int                `json:"max_len"`
	Switches    map[string]string  `json:"switches"`
	NilSwitches bool               `json:"nil_switches,omitempty"`
	AutoVars    map[string]AutoVar `json:"autovars"`
	Lint        bool               `json:"lint"`
}

// ErrInfo is a flattened error value.
type ErrInfo struct {
	Stage      string `json:"stage"` // parse | emit
	IsParseErr bool   `json:"is_parse_error"`
	Msg        string `json:"msg"`
	LineStart  int    `json:"line_start"`
	LineEnd    int    `json:"line_end"`
	CharStart  int    `json:"char_start"`
	CharEnd    int    `json:"char_end"`
}

// Result of one compilation.
type Result struct {
	Out        string   `json:"out"`
	HasOut     bool     `json:"has_out"`
	Err        *ErrInfo `json:"err,omitempty"`
	Panic      string   `json:"panic,omitempty"`
	Budget     string   `json:"budget,omitempty"` // "ticks" / "depth" when the progress budget tripped
	Ticks      int64    `json:"ticks"`
	MaxDepth   int      `json:"max_depth"`
	DiskReads  int      `json:"disk_reads"`
	Visits     int      `json:"map_visits"`
	BothOrNone string   `json:"both_or_none,omitempty"` // API contract breach: (nil,nil) or (value,err)
}

// Key is a canonical digest string of what the caller of the API observes.
func (r *Result) Key() string {
	var sb strings.Builder
	if r.Panic != "" {
		fmt.Fprintf(&sb, "PANIC:%s", r.Panic)
	}
	if r.Budget != "" {
		fmt.Fprintf(&sb, "BUDGET:%s", r.Budget)
	}
	if r.Err != nil {
		fmt.Fprintf(&sb, "ERR[%s,%v,%d-%d,%d-%d]:%s", r.Err.Stage, r.Err.IsParseErr, r.Err.LineStart, r.Err.LineEnd, r.Err.CharStart, r.Err.CharEnd, r.Err.Msg)
	}
	if r.HasOut {
		fmt.Fprintf(&sb, "OUT:%s", r.Out)
	}
	return sb.String()
}

func (o *Options) config() parser.CommandConfig {
	cfg := parser.CommandConfig{}
	if o.AutoVars != nil {
		cfg.AutoVarCommands = map[string]parser.AutoVarCommand{}
		names := make([]string, 0, len(o.AutoVars))
		for k := range o.AutoVars {
			names = append(names, k)
		}
		sort.Strings(names)
		for _, k := range names {
			v := o.AutoVars[k]
			c := parser.AutoVarCommand{VarName: v.VarName}
			if v.ArgPos != nil {
				p := *v.ArgPos
				c.VarNameArgPosition = &p
			}
			cfg.AutoVarCommands[k] = c
		}
	}
	return cfg
}

// Shared lets a history keep caller-owned maps alive across compilations, as an
// embedding process (the language server) does.
type Shared struct {
	Config   *parser.CommandConfig
	Switches map[string]string
}

// Limits are the progress budgets of one compilation (0 = unlimited).
type Limits struct {
	Ticks int64
	Depth int
}

// Compile runs one compilation. It never panics: a panic of the compiler is recovered
// (as an embedder would) and reported in Result.Panic; a tripped progress budget in
// Result.Budget.
func Compile(src string, o *Options, lim Limits, sh *Shared) (res Result) {
	simhook.Reset()
	simhook.TickBudget = lim.Ticks
	simhook.DepthBudget = lim.Depth
	defer func() {
		if r := recover(); r != nil {
			if b, ok := r.(simhook.BudgetExceeded); ok {
				res.Budget = b.Kind
			} else {
				res.Panic = fmt.Sprint(r)
			}
			res.HasOut = false
			res.Out = ""
		}
		res.Ticks = simhook.Ticks
		res.MaxDepth = simhook.MaxDepth
		res.DiskReads = simhook.DiskReads
		res.Visits = simhook.VisitCount
		simhook.TickBudget = 0
		simhook.DepthBudget = 0
	}()
	var cfg parser.CommandConfig
	var sw map[string]string
	if sh != nil && sh.Config != nil {
		cfg = *sh.Config
	} else {
		cfg = o.config()
	}
	if sh != nil && sh.Switches != nil {
		sw = sh.Switches
	} else if !o.NilSwitches {
		sw = map[string]string{}
		for k, v := range o.Switches {
			sw[k] = v
		}
	}
	var p *parser.Parser
	if o.Lint {
		p = parser.NewLintParser(lexer.New(src), cfg)
	} else {
		p = parser.New(lexer.New(src), cfg, o.FontPath, o.DefaultFont, o.MaxLen, sw)
	}
	prog, err := p.ParseProgram()
	if err != nil {
		res.Err = flatten("parse", err)
		if prog != nil {
			res.BothOrNone = "parse returned both a program and an error"
		}
		return res
	}
	if prog == nil {
		res.BothOrNone = "parse returned neither a program nor an error"
		return res
	}
	e := emitter.New(prog, o.Optimize, o.LineMarkers, o.Path)
	out, err := e.Emit()
	if err != nil {
		res.Err = flatten("emit", err)
		if out != "" {
			res.BothOrNone = "emit returned both output and an error"
		}
		return res
	}
	res.Out = out
	res.HasOut = true
	return res
}

func flatten(stage string, err error) *ErrInfo {
	ei := &ErrInfo{Stage: stage, Msg: err.Error()}
	switch pe := err.(type) {
	case parser.ParseError:
		ei.IsParseErr = true
		ei.Msg = pe.Message
		ei.LineStart, ei.LineEnd, ei.CharStart, ei.CharEnd = pe.LineNumberStart, pe.LineNumberEnd, pe.CharStart, pe.CharEnd
	case *parser.ParseError:
		ei.IsParseErr = true
		ei.Msg = pe.Message
		ei.LineStart, ei.LineEnd, ei.CharStart, ei.CharEnd = pe.LineNumberStart, pe.LineNumberEnd, pe.CharStart, pe.CharEnd
	}
	return ei
}

// NewSharedConfig builds a caller-owned config object from options.
func NewSharedConfig(o *Options) *parser.CommandConfig {
	c := o.config()
	return &c
}

// ConfigDigest renders a caller-owned config canonically (to detect writes into it).
func ConfigDigest(c *parser.CommandConfig) string {
	if c == nil || c.AutoVarCommands == nil {
		return "nil"
	}
	names := make([]string, 0, len(c.AutoVarCommands))
	for k := range c.AutoVarCommands {
		names = append(names, k)
	}
	sort.Strings(names)
	var sb strings.Builder
	for _, k := range names {
		v := c.AutoVarCommands[k]
		fmt.Fprintf(&sb, "%s=%q", k, v.VarName)
		if v.VarNameArgPosition != nil {
			fmt.Fprintf(&sb, "@%d", *v.VarNameArgPosition)
		}
		sb.WriteByte(';')
	}
	return sb.String()
}

// MapDigest renders a string map canonically.
func MapDigest(m map[string]string) string {
	if m == nil {
		return "nil"
	}
	names := make([]string, 0, len(m))
	for k := range m {
		names = append(names, k)
	}
	sort.Strings(names)
	var sb strings.Builder
	for _, k := range names {
		fmt.Fprintf(&sb, "%q=%q;", k, m[k])
	}
	return sb.String()
}

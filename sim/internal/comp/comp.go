// Package comp drives the REAL compiler (lexer -> parser -> emitter of the scratch copy of
// /repo) through its public library API, the way main.go and the language server do, and
// records everything the oracles need: output / error value / recovered panic, progress
// counters from the simhook seam, and the map-order / disk seam activity.
package comp

import (
	"bytes"
	"fmt"
	"os"
	"runtime"
	"runtime/debug"
	"sort"
	"strings"
	"sync/atomic"
	"time"

	"github.com/huderlem/poryscript/emitter"
	"github.com/huderlem/poryscript/lexer"
	"github.com/huderlem/poryscript/parser"
	"github.com/huderlem/poryscript/simhook"

	"verifsim/internal/rng"
)

// AutoVar mirrors one entry of command_config.json.
type AutoVar struct {
	VarName string `json:"var_name,omitempty"`
	ArgPos  *int   `json:"var_name_arg_position,omitempty"`
}

// Options are the knobs of one compilation (CLI flags of main.go).
type Options struct {
	Optimize    bool               `json:"optimize"`
	LineMarkers bool               `json:"line_markers"`
	Path        string             `json:"path"`
	FontPath    string             `json:"font_path"`
	DefaultFont string             `json:"default_font"`
	MaxLen      int                `json:"max_len"`
	Switches    map[string]string  `json:"switches"`
	NilSwitches bool               `json:"nil_switches,omitempty"`
	AutoVars    map[string]AutoVar `json:"autovars"`
	Lint        bool               `json:"lint"`
}

// ErrInfo is a flattened error value.
type ErrInfo struct {
	Stage      string `json:"stage"` // parse | emit
	IsParseErr bool   `json:"is_parse_error"`
	Msg        string `json:"msg"`
	LineStart  int    `json:"line_start"`
	LineEnd    int    `json:"line_end"`
	CharStart  int    `json:"char_start"`
	CharEnd    int    `json:"char_end"`
}

// Result of one compilation.
type Result struct {
	Out        string   `json:"out"`
	HasOut     bool     `json:"has_out"`
	Err        *ErrInfo `json:"err,omitempty"`
	Panic      string   `json:"panic,omitempty"`
	Budget     string   `json:"budget,omitempty"` // "ticks" / "depth" when the progress budget tripped
	Ticks      int64    `json:"ticks"`
	MaxDepth   int      `json:"max_depth"`
	DiskReads  int      `json:"disk_reads"`
	Visits     int      `json:"map_visits"`
	BothOrNone string   `json:"both_or_none,omitempty"`      // API contract breach: (nil,nil) or (value,err)
	Leaked     int      `json:"leaked_goroutines,omitempty"` // goroutines started by the call and still alive after it returned
}

// Key is a canonical digest string of what the caller of the API observes.
func (r *Result) Key() string {
	var sb strings.Builder
	if r.Panic != "" {
		fmt.Fprintf(&sb, "PANIC:%s", r.Panic)
	}
	if r.Budget != "" {
		fmt.Fprintf(&sb, "BUDGET:%s", r.Budget)
	}
	if r.Err != nil {
		fmt.Fprintf(&sb, "ERR[%s,%v,%d-%d,%d-%d]:%s", r.Err.Stage, r.Err.IsParseErr, r.Err.LineStart, r.Err.LineEnd, r.Err.CharStart, r.Err.CharEnd, r.Err.Msg)
	}
	if r.HasOut {
		fmt.Fprintf(&sb, "OUT:%s", r.Out)
	}
	return sb.String()
}

func (o *Options) config() parser.CommandConfig {
	cfg := parser.CommandConfig{}
	if o.AutoVars != nil {
		cfg.AutoVarCommands = map[string]parser.AutoVarCommand{}
		names := make([]string, 0, len(o.AutoVars))
		for k := range o.AutoVars {
			names = append(names, k)
		}
		sort.Strings(names)
		for _, k := range names {
			v := o.AutoVars[k]
			c := parser.AutoVarCommand{VarName: v.VarName}
			if v.ArgPos != nil {
				p := *v.ArgPos
				c.VarNameArgPosition = &p
			}
			cfg.AutoVarCommands[k] = c
		}
	}
	return cfg
}

// Shared lets a history keep caller-owned maps alive across compilations, as an
// embedding process (the language server) does.
type Shared struct {
	Config   *parser.CommandConfig
	Switches map[string]string
}

// Limits are the progress budgets of one compilation (0 = unlimited).
type Limits struct {
	Ticks int64
	Depth int
}

// Compile runs one compilation. It never panics: a panic of the compiler is recovered
// (as an embedder would) and reported in Result.Panic; a tripped progress budget in
// Result.Budget.
func Compile(src string, o *Options, lim Limits, sh *Shared) Result {
	if simhook.GoSites == 0 {
		// the tree contains no go statement: the compiler runs on the caller's goroutine
		return compile1(src, o, lim, sh)
	}
	return compileWatched(src, o, lim, sh)
}

// compileWatched is used when the tree starts goroutines. Which of them runs next is the
// Go scheduler's decision (the simulator does not own it - DESIGN.md 13.8); what the
// harness adds is: a panic / tripped budget inside a goroutine is reported like one on
// the main path (simhook.GoExit), a call whose goroutines are all blocked for good is
// reported as a hang instead of stalling the worker, and goroutines that outlive the
// call are counted.
func compileWatched(src string, o *Options, lim Limits, sh *Shared) Result {
	// One processor, garbage collection off for the duration of the call, and hand-overs only
	// where the seeded yield function says so (plus a forced one every 1024 ticks, so that the
	// runtime's own time-slice preemption never triggers): the interleaving of the compiler's
	// goroutines is then a function of SchedSeed and the input - as repeatable as the Go run
	// queue allows without a scheduler of our own.
	// (both are stop-the-world operations: every call starts from the same scheduler state -
	// run queues merged, nothing running on another processor)
	prevProcs := runtime.GOMAXPROCS(1)
	prevGC := debug.SetGCPercent(-1)
	ss := rng.H(SchedSeed, rng.HashStr(src), boolWord(o.Optimize), boolWord(o.Lint))
	den := []uint64{0, 1, 2, 8, 64, 512}[ss%6]
	simhook.YieldFn = func(tick int64) bool {
		if tick > 0 && tick%1024 == 0 {
			return true
		}
		if tick > 1<<16 || tick < -(1<<16) {
			return false // a runaway call: no point in interleaving it finely all the way to its budget
		}
		return den != 0 && rng.H(ss, uint64(tick))%den == 0 // tick < 0: the -n-th function entry
	}
	defer func() {
		simhook.YieldFn = nil
		debug.SetGCPercent(prevGC)
		runtime.GOMAXPROCS(prevProcs)
	}()
	before := runtime.NumGoroutine()
	done := make(chan Result, 1)
	var gid int64
	go func() {
		atomic.StoreInt64(&gid, goID())
		done <- compile1(src, o, lim, sh)
	}()
	var res Result
	select { // drop a stale signal of an earlier call
	case <-simhook.GoFailed:
	default:
	}
	t := time.NewTimer(stallSample)
	last, still := int64(-1), 0
	failed := 0
wait:
	for {
		select {
		case res = <-done:
			t.Stop()
			break wait
		case <-simhook.GoFailed:
			// a goroutine of the compiler panicked (in the real program: the process dies). Give
			// the rest a moment to finish; if the caller stays parked, report the panic now.
			failed = 1
			t.Reset(5 * time.Millisecond)
		case <-t.C:
			if failed > 0 {
				failed++
				if failed > 4 && blockedForGood(atomic.LoadInt64(&gid)) || failed > 40 {
					res = Result{Ticks: atomic.LoadInt64(&simhook.Ticks)}
					if r := simhook.TakeGoFailure(); r != nil {
						if b, ok := r.(simhook.BudgetExceeded); ok {
							res.Budget = b.Kind
						} else {
							res.Panic = "in a goroutine started by the compiler: " + fmt.Sprint(r)
						}
					} else {
						res.Budget = "deadlock"
					}
					simhook.TickBudget = 0
					simhook.DepthBudget = 0
					return res
				}
				t.Reset(5 * time.Millisecond)
				continue
			}
			cur := atomic.LoadInt64(&simhook.Ticks)
			if cur == last && blockedForGood(atomic.LoadInt64(&gid)) {
				still++
			} else {
				still = 0
			}
			last = cur
			if still >= 4 {
				// no loop iteration anywhere for 4 samples and the calling goroutine is parked on a
				// channel / WaitGroup / mutex: nothing is left that could wake it
				if os.Getenv("VERIF_DEBUG_DEADLOCK") != "" {
					fmt.Fprintf(os.Stderr, "DEADLOCK lint=%v src=%q\n", o.Lint, src)
				}
				res = Result{Budget: "deadlock", Ticks: cur}
				simhook.TickBudget = 0
				simhook.DepthBudget = 0
				return res
			}
			t.Reset(stallSample)
		}
	}
	if r := simhook.TakeGoFailure(); r != nil && res.Panic == "" && res.Budget == "" {
		if b, ok := r.(simhook.BudgetExceeded); ok {
			res.Budget = b.Kind
		} else {
			res.Panic = "in a goroutine started by the compiler: " + fmt.Sprint(r)
		}
		res.HasOut = false
		res.Out = ""
		res.Err = nil
	}
	// goroutines that outlive the call (a short grace lets finished ones exit)
	// Let the goroutines of this call run to their end before the next call starts: on one
	// processor Gosched hands over to each runnable goroutine in queue order, without any
	// dependence on wall-clock time. Only what is still alive after that gets a real-time grace.
	n := runtime.NumGoroutine()
	for i := 0; i < 4000 && n > before; i++ {
		runtime.Gosched()
		n = runtime.NumGoroutine()
	}
	for i := 0; i < 50 && n > before; i++ {
		time.Sleep(100 * time.Microsecond)
		n = runtime.NumGoroutine()
	}
	if n > before && res.Budget == "" && res.Panic == "" {
		res.Leaked = n - before
	}
	return res
}

// SchedSeed seeds the yield decisions of compileWatched (set per run by the engines, and
// from the replay file on replay).
var SchedSeed uint64

func boolWord(b bool) uint64 {
	if b {
		return 1
	}
	return 0
}

const stallSample = 500 * time.Millisecond

// goID is the id of the calling goroutine (from its stack header).
func goID() int64 {
	var buf [64]byte
	b := buf[:runtime.Stack(buf[:], false)]
	var id int64
	fmt.Sscanf(string(b), "goroutine %d ", &id)
	return id
}

// blockedForGood reports whether goroutine id is parked in a channel operation, select or
// a sync primitive (not running, runnable or in a system call).
func blockedForGood(id int64) bool {
	if id == 0 {
		return false
	}
	buf := make([]byte, 1<<20)
	buf = buf[:runtime.Stack(buf, true)]
	head := []byte(fmt.Sprintf("goroutine %d [", id))
	i := bytes.Index(buf, head)
	if i < 0 {
		return false
	}
	rest := buf[i+len(head):]
	j := bytes.IndexByte(rest, ']')
	if j < 0 {
		return false
	}
	state := string(rest[:j])
	for _, p := range []string{"chan send", "chan receive", "select", "semacquire", "sync."} {
		if strings.HasPrefix(state, p) {
			return true
		}
	}
	return false
}

func compile1(src string, o *Options, lim Limits, sh *Shared) (res Result) {
	simhook.Reset()
	simhook.TickBudget = lim.Ticks
	simhook.DepthBudget = lim.Depth
	defer func() {
		if r := recover(); r != nil {
			if b, ok := r.(simhook.BudgetExceeded); ok {
				res.Budget = b.Kind
			} else {
				res.Panic = fmt.Sprint(r)
			}
			res.HasOut = false
			res.Out = ""
		}
		res.Ticks = simhook.Ticks
		res.MaxDepth = simhook.MaxDepth
		res.DiskReads = simhook.DiskReads
		res.Visits = simhook.VisitCount
		simhook.TickBudget = 0
		simhook.DepthBudget = 0
	}()
	var cfg parser.CommandConfig
	var sw map[string]string
	if sh != nil && sh.Config != nil {
		cfg = *sh.Config
	} else {
		cfg = o.config()
	}
	if sh != nil && sh.Switches != nil {
		sw = sh.Switches
	} else if !o.NilSwitches {
		sw = map[string]string{}
		for k, v := range o.Switches {
			sw[k] = v
		}
	}
	var p *parser.Parser
	if o.Lint {
		p = parser.NewLintParser(lexer.New(src), cfg)
	} else {
		p = parser.New(lexer.New(src), cfg, o.FontPath, o.DefaultFont, o.MaxLen, sw)
	}
	prog, err := p.ParseProgram()
	if err != nil {
		res.Err = flatten("parse", err)
		if prog != nil {
			res.BothOrNone = "parse returned both a program and an error"
		}
		return res
	}
	if prog == nil {
		res.BothOrNone = "parse returned neither a program nor an error"
		return res
	}
	e := emitter.New(prog, o.Optimize, o.LineMarkers, o.Path)
	out, err := e.Emit()
	if err != nil {
		res.Err = flatten("emit", err)
		if out != "" {
			res.BothOrNone = "emit returned both output and an error"
		}
		return res
	}
	res.Out = out
	res.HasOut = true
	return res
}

func flatten(stage string, err error) *ErrInfo {
	ei := &ErrInfo{Stage: stage, Msg: err.Error()}
	switch pe := err.(type) {
	case parser.ParseError:
		ei.IsParseErr = true
		ei.Msg = pe.Message
		ei.LineStart, ei.LineEnd, ei.CharStart, ei.CharEnd = pe.LineNumberStart, pe.LineNumberEnd, pe.CharStart, pe.CharEnd
	case *parser.ParseError:
		ei.IsParseErr = true
		ei.Msg = pe.Message
		ei.LineStart, ei.LineEnd, ei.CharStart, ei.CharEnd = pe.LineNumberStart, pe.LineNumberEnd, pe.CharStart, pe.CharEnd
	}
	return ei
}

// NewSharedConfig builds a caller-owned config object from options.
func NewSharedConfig(o *Options) *parser.CommandConfig {
	c := o.config()
	return &c
}

// ConfigDigest renders a caller-owned config canonically (to detect writes into it).
func ConfigDigest(c *parser.CommandConfig) string {
	if c == nil || c.AutoVarCommands == nil {
		return "nil"
	}
	names := make([]string, 0, len(c.AutoVarCommands))
	for k := range c.AutoVarCommands {
		names = append(names, k)
	}
	sort.Strings(names)
	var sb strings.Builder
	for _, k := range names {
		v := c.AutoVarCommands[k]
		fmt.Fprintf(&sb, "%s=%q", k, v.VarName)
		if v.VarNameArgPosition != nil {
			fmt.Fprintf(&sb, "@%d", *v.VarNameArgPosition)
		}
		sb.WriteByte(';')
	}
	return sb.String()
}

// MapDigest renders a string map canonically.
func MapDigest(m map[string]string) string {
	if m == nil {
		return "nil"
	}
	names := make([]string, 0, len(m))
	for k := range m {
		names = append(names, k)
	}
	sort.Strings(names)
	var sb strings.Builder
	for _, k := range names {
		fmt.Fprintf(&sb, "%q=%q;", k, m[k])
	}
	return sb.String()
}

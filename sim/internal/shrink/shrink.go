// Package shrink minimises a failing model.File by greedy one-step reductions to a
// fixpoint, accepting a candidate only if the caller's predicate (same oracle of the
// same property still fails) holds.
package shrink

import (
	"encoding/json"

	"verifsim/internal/model"
)

func Clone(f *model.File) *model.File {
	b, err := json.Marshal(f)
	if err != nil {
		panic(err)
	}
	var g model.File
	if err := json.Unmarshal(b, &g); err != nil {
		panic(err)
	}
	return &g
}

// editor walks a file and applies the k-th possible edit (k counted in walk order).
type editor struct {
	k     int // edit index to apply; -1 = just count
	n     int // edits seen so far
	done  bool
	avail map[string]model.AutoVar
}

func (e *editor) hit() bool {
	if e.done {
		return false
	}
	e.n++
	if e.k >= 0 && e.n-1 == e.k {
		e.done = true
		return true
	}
	return false
}

func newCmd() *model.Stmt {
	return &model.Stmt{K: model.KCmd, Cmd: &model.Cmd{Name: "z"}}
}

func (e *editor) block(b *[]*model.Stmt) {
	// delete the whole block content
	if len(*b) > 1 && e.hit() {
		*b = nil
		return
	}
	for i := 0; i < len(*b) && !e.done; i++ {
		s := (*b)[i]
		// delete statement i
		if e.hit() {
			*b = append((*b)[:i:i], (*b)[i+1:]...)
			return
		}
		splice := func(body []*model.Stmt) {
			nb := append([]*model.Stmt{}, (*b)[:i]...)
			nb = append(nb, body...)
			nb = append(nb, (*b)[i+1:]...)
			*b = nb
		}
		switch s.K {
		case model.KCmd:
			e.cmd(s.Cmd, false)
		case model.KLabel:
			if s.Global != 0 && e.hit() {
				s.Global = 0
				return
			}
		case model.KIf:
			if e.hit() {
				(*b)[i] = newCmd()
				return
			}
			for j := range s.Bodies {
				if e.hit() {
					splice(s.Bodies[j])
					return
				}
			}
			if s.HasElse && e.hit() {
				splice(s.Else)
				return
			}
			if s.HasElse && e.hit() {
				s.HasElse = false
				s.Else = nil
				return
			}
			for j := 1; j < len(s.Conds); j++ {
				if e.hit() {
					s.Conds = append(s.Conds[:j:j], s.Conds[j+1:]...)
					s.Bodies = append(s.Bodies[:j:j], s.Bodies[j+1:]...)
					return
				}
			}
			if len(s.Conds) > 1 && e.hit() {
				// drop the leading if, promote first elif
				s.Conds = s.Conds[1:]
				s.Bodies = s.Bodies[1:]
				return
			}
			for j := range s.Conds {
				e.expr(&s.Conds[j])
			}
			for j := range s.Bodies {
				e.block(&s.Bodies[j])
			}
			if s.HasElse {
				e.block(&s.Else)
			}
		case model.KWhile:
			if e.hit() {
				(*b)[i] = newCmd()
				return
			}
			if e.hit() {
				splice(stripLoopJumps(s.Body))
				return
			}
			if s.Cond != nil {
				if e.hit() {
					// while -> if
					(*b)[i] = &model.Stmt{K: model.KIf, Conds: []*model.Expr{s.Cond}, Bodies: [][]*model.Stmt{stripLoopJumps(s.Body)}}
					return
				}
				e.expr(&s.Cond)
			}
			e.block(&s.Body)
		case model.KDoWhile:
			if e.hit() {
				(*b)[i] = newCmd()
				return
			}
			if e.hit() {
				splice(stripLoopJumps(s.Body))
				return
			}
			if e.hit() {
				s.K = model.KWhile
				return
			}
			e.expr(&s.Cond)
			e.block(&s.Body)
		case model.KPory:
			if e.hit() {
				(*b)[i] = newCmd()
				return
			}
			for j := range s.PCases {
				if e.hit() {
					splice(s.PCases[j].Body)
					return
				}
			}
			for j := range s.PCases {
				if len(s.PCases) > 1 && e.hit() {
					s.PCases = append(s.PCases[:j:j], s.PCases[j+1:]...)
					return
				}
			}
			for j := range s.PCases {
				if s.PCases[j].Brace {
					e.block(&s.PCases[j].Body)
				} else if len(s.PCases[j].Body) == 1 {
					// the ':' form holds exactly one statement: only edits that keep it so
					one := []*model.Stmt{s.PCases[j].Body[0]}
					e.block(&one)
					if len(one) == 1 {
						s.PCases[j].Body = one
					} else if e.done {
						s.PCases[j].Body = one
						s.PCases[j].Brace = true
					}
				}
			}
		case model.KSwitch:
			if e.hit() {
				(*b)[i] = newCmd()
				return
			}
			for j := range s.Sw.Cases {
				if len(s.Sw.Cases) > 1 && e.hit() {
					s.Sw.Cases = append(s.Sw.Cases[:j:j], s.Sw.Cases[j+1:]...)
					return
				}
			}
			for j := range s.Sw.Cases {
				if len(s.Sw.Cases[j].Body) > 0 && e.hit() {
					splice(stripLoopJumps(s.Sw.Cases[j].Body))
					return
				}
				if len(s.Sw.Cases[j].Body) > 0 && e.hit() {
					s.Sw.Cases[j].Body = nil
					return
				}
			}
			if s.Sw.Auto != nil {
				if e.hit() {
					s.Sw.Var = "VAR_0"
					s.Sw.Auto = nil
					return
				}
				e.cmd(s.Sw.Auto, true)
			}
			for j := range s.Sw.Cases {
				e.block(&s.Sw.Cases[j].Body)
			}
		}
	}
}

// stripLoopJumps removes break/continue that would lose their scope when a body is
// spliced into its parent (top level of the body only; nested ones make the candidate
// fail to compile, which simply rejects the candidate).
func stripLoopJumps(b []*model.Stmt) []*model.Stmt {
	var out []*model.Stmt
	for _, s := range b {
		if s.K == model.KBreak || s.K == model.KContinue {
			continue
		}
		out = append(out, s)
	}
	return out
}

func (e *editor) cmd(c *model.Cmd, auto bool) {
	minArgs := 0
	if auto {
		if av, ok := e.avail[c.Name]; ok && av.ArgPos >= 0 {
			minArgs = av.ArgPos + 1
		}
	}
	if c.Name == "goto" || c.Name == "call" {
		return
	}
	for j := len(c.Args) - 1; j >= minArgs; j-- {
		if e.hit() {
			c.Args = append(c.Args[:j:j], c.Args[j+1:]...)
			return
		}
	}
	for j := range c.Args {
		a := &c.Args[j]
		if a.Kind != model.ArgPlain && e.hit() {
			*a = model.Arg{Toks: []string{"X"}}
			return
		}
		if a.Kind == model.ArgPlain && len(a.Toks) > 1 && e.hit() {
			a.Toks = a.Toks[:1]
			return
		}
	}
	if c.Paren && e.hit() {
		c.Paren = false
	}
}

func (e *editor) expr(pe **model.Expr) {
	x := *pe
	if e.done {
		return
	}
	if x.Parens > 0 && e.hit() {
		x.Parens = 0
		return
	}
	switch x.Op {
	case model.OLeaf:
		l := x.Leaf
		if l.Kind == model.LAuto {
			if e.hit() {
				l.Kind = model.LVar
				l.Name = "VAR_0"
				l.Auto = nil
				return
			}
			e.cmd(l.Auto, true)
		}
		if l.Form != model.FBare && e.hit() {
			l.Form = model.FBare
			l.Op, l.Val, l.Strict = "", "", false
			return
		}
		if l.Strict && e.hit() {
			l.Strict = false
			return
		}
	case model.ONot:
		if e.hit() {
			*pe = x.L
			return
		}
		e.expr(&x.L)
	case model.OAnd, model.OOr:
		if e.hit() {
			*pe = x.L
			return
		}
		if e.hit() {
			*pe = x.R
			return
		}
		e.expr(&x.L)
		e.expr(&x.R)
	}
}

func (e *editor) file(f *model.File) {
	e.avail = f.AutoVars
	for i := range f.Scripts {
		if len(f.Scripts) > 1 && e.hit() {
			f.Scripts = append(f.Scripts[:i:i], f.Scripts[i+1:]...)
			return
		}
	}
	if f.MapScripts != nil {
		if e.hit() {
			f.MapScripts = nil
			return
		}
		m := f.MapScripts
		for i := range m.Entries {
			if len(m.Entries) > 1 && e.hit() {
				m.Entries = append(m.Entries[:i:i], m.Entries[i+1:]...)
				return
			}
		}
		for i := range m.Entries {
			en := &m.Entries[i]
			if en.Inline {
				e.block(&en.Body)
			}
			if en.IsTable {
				for j := range en.Table {
					if len(en.Table) > 1 && e.hit() {
						en.Table = append(en.Table[:j:j], en.Table[j+1:]...)
						return
					}
				}
				for j := range en.Table {
					if en.Table[j].Inline {
						e.block(&en.Table[j].Body)
					}
				}
			}
		}
	}
	for _, s := range f.Scripts {
		if s.Scope != 0 && e.hit() {
			s.Scope = 0
			return
		}
		e.block(&s.Body)
	}
}

// Count returns the number of one-step reductions available on f.
func Count(f *model.File) int {
	e := &editor{k: -1}
	e.file(f)
	return e.n
}

// Apply returns a copy of f with the k-th reduction applied (nil if k is out of range).
func Apply(f *model.File, k int) *model.File {
	g := Clone(f)
	e := &editor{k: k}
	e.file(g)
	if !e.done {
		return nil
	}
	return g
}

// Minimize greedily reduces f while fails(candidate) stays true. budget bounds the
// number of predicate evaluations. It returns the reduced file and the evaluations used.
func Minimize(f *model.File, fails func(*model.File) bool, budget int) (*model.File, int) {
	cur := Clone(f)
	used := 0
	for {
		progress := false
		n := Count(cur)
		for k := 0; k < n && used < budget; k++ {
			cand := Apply(cur, k)
			if cand == nil {
				break
			}
			used++
			if fails(cand) {
				cur = cand
				progress = true
				n = Count(cur)
				k-- // the same index now denotes the next edit
			}
		}
		if !progress || used >= budget {
			return cur, used
		}
	}
}

package engine

import (
	"encoding/json"
	"fmt"
	"os"
	"runtime"
	"strings"
	"time"
	"unicode/utf8"

	"verifsim/internal/comp"
	"verifsim/internal/filegen"
	"verifsim/internal/rng"
)

// Engine C - fault campaign for C18 (DESIGN.md section 6).

// Progress budgets: generous linear bounds in the input length, independent of any
// implementation constant (validated against the maximum observed on the unchanged tree,
// which the evidence reports as max_observed_over_budget).
func faultLimits(n int) (comp.Limits, int) {
	return comp.Limits{Ticks: tickFactor * int64(n+256), Depth: 16*n + 1024}, 0
}

// limitsFor: the only construct of the language that legitimately does more than a
// constant amount of work per input byte is the movement multiplier `step * N`
// (N <= 9999, README "movement Statement"). An input without a '*' gets a tenth of the
// tick budget, which makes a hang ten times cheaper to detect.
func limitsFor(input string) comp.Limits {
	lim, _ := faultLimits(len(input))
	if !strings.Contains(input, "*") {
		lim.Ticks /= 10
	}
	return lim
}

// maxOutput: `step * 9999` legitimately turns 6 input bytes into 9999 output lines, each
// preceded by a line marker that repeats the input path, so the only sound bound on the
// output is 10^4 lines of (path + step) length per input byte.
func maxOutput(input string, o *comp.Options) int {
	if !strings.Contains(input, "*") {
		// without a multiplier nothing in the language repeats text: every output line
		// (plus its line marker) stems from its own piece of input
		// (a constant may hold a few thousand characters and be used every few bytes)
		return 64 * (len(o.Path) + 64) * (len(input) + 256)
	}
	return 10000 * (len(o.Path) + 64) * (len(input) + 256)
}

// tickFactor is the per-byte tick budget. Minimisation of a hang lowers it temporarily
// (every candidate that still hangs costs the whole budget); the minimised input is
// re-confirmed under the full budget.
var tickFactor int64 = 20000

type FaultReplay struct {
	Kind     string        `json:"kind"`
	Desc     string        `json:"desc"`
	Input    string        `json:"input"`
	Options  comp.Options  `json:"options"`
	Disk     *Disk         `json:"disk"`
	Input2   string        `json:"input_b,omitempty"` // relational oracles: the other side
	Options2 *comp.Options `json:"options_b,omitempty"`
	Disk2    *Disk         `json:"disk_b,omitempty"`
	Result   *comp.Result  `json:"result,omitempty"`
	Result2  *comp.Result  `json:"result_b,omitempty"`
	CLI      bool          `json:"through_cli,omitempty"` // the failure is the command-line front end's
}

func compileOn(input string, o *comp.Options, d *Disk) comp.Result {
	Mount(d)
	lim := limitsFor(input)
	res := comp.Compile(input, o, lim, nil)
	if res.Leaked > 0 {
		// goroutines outlived the call (possible only when the tree has go statements). One
		// lazily started helper is bounded; a leak per call is not: the same call is repeated
		// and counts only if the number of live goroutines grows with every repetition.
		const reps = 24
		before := runtime.NumGoroutine()
		for i := 0; i < reps; i++ {
			comp.Compile(input, o, lim, nil)
		}
		n := runtime.NumGoroutine()
		for i := 0; i < 15 && n >= before+reps; i++ {
			time.Sleep(10 * time.Millisecond)
			n = runtime.NumGoroutine()
		}
		if n >= before+reps {
			res.Leaked = (n - before) / reps
		} else {
			res.Leaked = 0
		}
	}
	Mount(nil)
	return res
}

// unaryOracle checks the clauses of C18 that concern a single compilation.
func unaryOracle(input string, o *comp.Options, res *comp.Result) (string, string) {
	if res.Panic != "" {
		return "panic", "compiler panicked: " + res.Panic
	}
	if res.Budget == "ticks" {
		return "hang", fmt.Sprintf("no answer within %d loop iterations for an input of %d bytes", res.Ticks, len(input))
	}
	if res.Budget == "deadlock" {
		return "hang", fmt.Sprintf("the call never returns for an input of %d bytes: no loop iteration for 2 s and the calling goroutine is parked on a channel or sync primitive (deadlock among the compiler's goroutines)", len(input))
	}
	if res.Leaked > 0 {
		return "unbounded-growth", fmt.Sprintf("every compilation of this input leaves %d goroutine(s) behind that never finish (confirmed over 24 repetitions)", res.Leaked)
	}
	if res.Budget == "depth" {
		return "runaway-recursion", fmt.Sprintf("recursion depth passed %d for an input of %d bytes", res.MaxDepth, len(input))
	}
	if res.BothOrNone != "" {
		return "both-or-none", res.BothOrNone
	}
	maxOut := maxOutput(input, o)
	if res.HasOut && len(res.Out) > maxOut {
		return "output-growth", fmt.Sprintf("output of %d bytes for an input of %d bytes", len(res.Out), len(input))
	}
	if res.Err != nil {
		if !res.Err.IsParseErr {
			return "error-not-located", fmt.Sprintf("%s error carries no line range: %q", res.Err.Stage, res.Err.Msg)
		}
		lines := 1 + strings.Count(input, "\n")
		if res.Err.LineStart < 1 || res.Err.LineStart > res.Err.LineEnd || res.Err.LineEnd > lines {
			return "error-range", fmt.Sprintf("error %q has line range %d..%d for an input of %d lines", res.Err.Msg, res.Err.LineStart, res.Err.LineEnd, lines)
		}
	}
	if !res.HasOut && res.Err == nil {
		return "both-or-none", "neither output nor error"
	}
	return "", ""
}

var soupVocab = []string{"script", "text", "movement", "mart", "mapscripts", "raw", "const", "format", "var", "flag", "defeated", "TRUE", "false", "if", "else", "elif", "do", "while",
	"break", "continue", "switch", "case", "default", "global", "local", "poryswitch", "value", "moves", "(", ")", "{", "}", "[", "]", ",", ":", "=", "==", "!=", "<", ">", "<=", ">=", "&&", "||", "!", "*",
	"Foo", "BAR_1", "_", "0", "12", "-3", "0x1F", "9999", "10000", "\"str\"", "ascii\"s\"", "`raw`", "\"unterminated", "`unterminated", "&", "|", "@", "$", "end", "return", "goto", "av0", "msgbox", "é", "ポ", "\ufeff"}

// unicodeZoo: runes of many general categories (letters, marks, decimal digits of other
// scripts, letter/other numbers, punctuation, symbols, separators, format characters,
// private use, non-characters, astral planes). All valid UTF-8.
var unicodeZoo = []string{"\u0663", "\uff13", "\u0967", "\u2167", "\u00b2", "\u00bd", "\u3007", "\u0300", "\u20dd", "\u00a0", "\u2028", "\u2029", "\u3000", "\u200d", "\u00ad", "\u061c",
	"\u00ab", "\u2014", "\u2026", "\u00d7", "\u20ac", "\u2190", "\ue000", "\ufdd0", "\uffff", "\U0001f600", "\U00020000", "\U0010ffff", "\u0130", "\u00df", "\u01c5", "\u02b0", "\u05d0", "\u4e2d", "\u0e01", "\u1100", "_", "\u203f", "\u0085", "\u001b", "\u007f"}

var insertRunes = []string{"\x00", "\ufffd", "\ufeff", "\r", "é", "ポケ", "\u0301", "\u200b", "\t", "\"", "`", "#", "//", "\\", "{", "}", "(", ")"}

type faultRun struct {
	pm     *Params
	st     *Stats
	run    uint64
	seed   uint64
	fails  []*Failure
	dist   []uint64
	digest *Digest
	hung   bool
}

func (fr *faultRun) observe(kind, desc, input string, o *comp.Options, d *Disk, base string) comp.Result {
	if fr.hung {
		// a hang was already reported for this run: every further variant of the same program
		// would very likely cost its whole tick budget again
		return comp.Result{}
	}
	res := compileOn(input, o, d)
	if res.Budget != "" {
		fr.hung = true
	}
	st := fr.st
	st.Evaluations++
	st.CompilerTicks += res.Ticks
	fc := st.Fault(kind)
	fc.Configured++
	fired := true
	if strings.HasPrefix(kind, "E") && d != nil && d.Fault.Kind != "" {
		fired = d.Fired > 0
	}
	if fired {
		fc.Fired++
	}
	eff := res.Key() != base
	if eff {
		fc.Effective++
	}
	if eff || (d != nil && d.Fired > 0) {
		fr.dist = append(fr.dist, rng.H(rng.HashStr(input), rng.HashStr(optKey(o, d))))
	}
	lim := limitsFor(input)
	maxOut := maxOutput(input, o)
	if r := float64(res.Ticks) / float64(lim.Ticks); r > st.MaxTicksRatio {
		st.MaxTicksRatio = r
	}
	if r := float64(res.MaxDepth) / float64(lim.Depth); r > st.MaxDepthRatio {
		st.MaxDepthRatio = r
	}
	if r := float64(len(res.Out)) / float64(maxOut); r > st.MaxOutRatio {
		st.MaxOutRatio = r
	}
	fr.digest.Add(res.Key())
	transp.maybe(input, o, &res)
	if or, detail := unaryOracle(input, o, &res); or != "" {
		fr.report(or, detail, &FaultReplay{Kind: kind, Desc: desc, Input: input, Options: *o, Disk: d, Result: &res})
	} else if cli != nil && d != nil && d.Fault.Kind == "" && o.FontPath == "font_config.json" && rng.H(rng.HashStr(input), 0xc11)%40 == 0 {
		// a sample (1 in 40, keyed by the input) also goes through the command-line front end
		st.CLIChecked++
		if detail := cliCrashCheck(input, o, &res, d.Files["font_config.json"]); detail != "" {
			fr.report("cli-crash", detail, &FaultReplay{Kind: kind, Desc: desc, Input: input, Options: *o, Disk: d, Result: &res, CLI: true})
		}
	}
	return res
}

func optKey(o *comp.Options, d *Disk) string {
	b, _ := json.Marshal(o)
	s := string(b)
	if d != nil {
		s += d.Fault.Kind + fmt.Sprint(d.Fault.Offset)
	}
	return s
}

func (fr *faultRun) report(oracle, detail string, rp *FaultReplay) {
	// one failure per oracle per run is enough
	for _, f := range fr.fails {
		if f.Oracle == oracle {
			return
		}
	}
	rp = faultMinimize(oracle, rp)
	r := &Replay{Version: 1, Engine: "fault", Property: "C18", Oracle: oracle, VerifSeed: fr.pm.VerifSeed, Run: fr.run, RunSeed: fr.seed, Detail: detail, Fault: rp}
	fl := &Failure{Property: "C18", Oracle: oracle, Detail: detail, Replay: r}
	if id := fr.pm.Known.Attribute(r); id != "" {
		fl.Known = id
		fr.st.KnownSeen[id]++
		return
	}
	r.Run = fr.run*100 + uint64(len(fr.fails))
	path, err := WriteReplay(fr.pm.ReplayDir, r)
	if err != nil {
		fl.Detail += " (could not write replay: " + err.Error() + ")"
	}
	fl.Path = path
	fr.fails = append(fr.fails, fl)
}

// faultEval re-evaluates a (possibly relational) fault case and returns the oracle it breaks.
func faultEval(rp *FaultReplay) (string, string) {
	res := compileOn(rp.Input, &rp.Options, cloneDisk(rp.Disk))
	if or, d := unaryOracle(rp.Input, &rp.Options, &res); or != "" {
		return or, d
	}
	if rp.CLI {
		if cli == nil {
			cli = newCLI("")
		}
		if rp.Disk != nil {
			if detail := cliCrashCheck(rp.Input, &rp.Options, &res, rp.Disk.Files["font_config.json"]); detail != "" {
				return "cli-crash", detail
			}
		}
		return "", ""
	}
	if rp.Options2 != nil {
		in2 := rp.Input2
		if in2 == "" {
			in2 = rp.Input
		}
		res2 := compileOn(in2, rp.Options2, cloneDisk(rp.Disk2))
		if or, d := unaryOracle(in2, rp.Options2, &res2); or != "" {
			return or, d
		}
		if res.Budget != "" || res2.Budget != "" || res.Panic != "" || res2.Panic != "" {
			return "", ""
		}
		switch rp.Kind {
		case "lint-superset":
			if res.HasOut && res2.Err != nil {
				return "lint-superset", fmt.Sprintf("normal mode accepts, lint mode fails with %q", res2.Err.Msg)
			}
		case "lint-env":
			if res.Key() != res2.Key() {
				return "lint-env", fmt.Sprintf("lint result depends on the environment: %.200q vs %.200q", res.Key(), res2.Key())
			}
		}
	}
	return "", ""
}

func cloneDisk(d *Disk) *Disk {
	if d == nil {
		return nil
	}
	c := &Disk{Files: map[string][]byte{}, Fault: d.Fault}
	for k, v := range d.Files {
		c.Files[k] = append([]byte(nil), v...)
	}
	return c
}

// faultMinimize shortens the input while the same oracle fails: drop a suffix / prefix /
// middle chunk of lines, then of bytes at rune boundaries.
func faultMinimize(oracle string, rp *FaultReplay) *FaultReplay {
	best := *rp
	fails := func(in string) bool {
		if !utf8.ValidString(in) {
			return false
		}
		c := best
		c.Input = in
		if c.Input2 == rp.Input {
			c.Input2 = in
		}
		or, _ := faultEval(&c)
		return or == oracle
	}
	budget := 1500
	if oracle == "hang" || oracle == "runaway-recursion" {
		// every candidate that still hangs costs its whole (reduced) tick budget
		budget = 40
		if len(best.Input) > 1500 {
			budget = 12
		}
	}
	// Minimisation runs under a tenth of the tick budget (a candidate that trips it is
	// simply not accepted unless the oracle being minimised is the hang itself) and under a
	// wall-clock cap: it is an effort bound on making the replay smaller, never part of a verdict.
	tickFactor = 2000
	defer func() { tickFactor = 20000 }()
	deadline := time.Now().Add(20 * time.Second)
	in := best.Input
	for chunk := len(in) / 2; chunk >= 1 && budget > 0 && time.Now().Before(deadline); chunk /= 2 {
		for i := 0; i+chunk <= len(in) && budget > 0 && time.Now().Before(deadline); {
			cand := in[:i] + in[i+chunk:]
			budget--
			if fails(cand) {
				in = cand
			} else {
				i += chunk
			}
		}
	}
	if tickFactor != 20000 {
		// re-confirm under the full budget; otherwise keep the original input
		tickFactor = 20000
		if !fails(in) {
			in = best.Input
		}
	}
	if best.Input2 == best.Input {
		best.Input2 = in
	}
	best.Input = in
	res := compileOn(best.Input, &best.Options, cloneDisk(best.Disk))
	best.Result = &res
	return &best
}

// FaultWorker runs the fault campaign slice of one worker.
func FaultWorker(pm *Params) (*Stats, []*Failure) {
	st := NewStats()
	var fails []*Failure
	var dist []uint64
	total := &Digest{}
	transp = newTranspLogger(pm.TranspOut)
	defer func() { transp.close(); transp = nil }()
	cli = newCLI(pm.DistinctOut)
	defer func() { cli.close(); cli = nil }()
	for i := pm.From; i < pm.Count; i += pm.Stride {
		fr := &faultRun{pm: pm, st: st, run: i, seed: rng.RunSeed(pm.VerifSeed, "C18", i), digest: &Digest{}}
		beginRun(pm, i)
		comp.SchedSeed = rng.Sub(fr.seed, "sched")
		fr.exec()
		st.Runs++
		total.Add(fr.digest.Hex())
		if pm.PerRun {
			st.PerRun = append(st.PerRun, fmt.Sprintf("%d %s", i, fr.digest.Hex()))
		}
		dist = append(dist, fr.dist...)
		fails = append(fails, fr.fails...)
		if len(fails) >= pm.MaxFail {
			break
		}
	}
	st.Digest = total.Hex()
	if pm.DistinctOut != "" {
		writeHashes(pm.DistinctOut, dist)
	}
	return st, fails
}

func fgOptions(f *filegen.File) comp.Options {
	o := comp.Options{FontPath: "font_config.json", Switches: map[string]string{}}
	for k, v := range f.Switches {
		o.Switches[k] = v
	}
	if len(f.AutoVars) > 0 {
		o.AutoVars = map[string]comp.AutoVar{}
		for k, v := range f.AutoVars {
			av := comp.AutoVar{VarName: v.VarName}
			if v.ArgPos >= 0 {
				p := v.ArgPos
				av.ArgPos = &p
			}
			o.AutoVars[k] = av
		}
	}
	return o
}

func healthyDisk(f *filegen.File) *Disk {
	return &Disk{Files: map[string][]byte{"font_config.json": f.Fonts.JSON()}}
}

func (fr *faultRun) exec() {
	gr := rng.New(rng.Sub(fr.seed, "gen"))
	cfg := filegen.DrawConfig(gr)
	f := filegen.Gen(gr, cfg)
	toks := f.Tokens(nil)
	or := rng.New(rng.Sub(fr.seed, "options"))
	lr := rng.New(rng.Sub(fr.seed, "layout"))
	style := []int{1, 1, 1, 2, 2, 3, 4}[or.Intn(7)]
	input0 := filegen.Join(toks, style, lr.U64)
	o := fgOptions(f)
	o.Optimize = or.Bool()
	o.LineMarkers = or.Bool()
	o.Path = []string{"", "a.pory", `C:\dir\"q".pory`, "src/ü.pory"}[or.Intn(4)]
	ids := f.Fonts.IDs()
	if or.P(0.3) {
		o.DefaultFont = ids[or.Intn(len(ids))]
	}
	if or.P(0.3) {
		o.MaxLen = or.Range(20, 300)
	}
	st := fr.st
	st.Programs++
	// baseline
	base := compileOn(input0, &o, healthyDisk(f))
	st.Evaluations++
	fr.digest.Add(base.Key())
	transp.maybe(input0, &o, &base)
	if base.Budget != "" {
		fr.hung = true
	}
	if orc, d := unaryOracle(input0, &o, &base); orc != "" {
		fr.report(orc, d, &FaultReplay{Kind: "baseline", Desc: "unfaulted generated program", Input: input0, Options: o, Disk: healthyDisk(f), Result: &base})
	}
	if !base.HasOut {
		st.Rejected++
		if d := os.Getenv("VERIF_DUMP_REJECTED"); d != "" { // debugging aid: keep the rejected baseline programs
			os.WriteFile(fmt.Sprintf("%s/rejected-%d.pory", d, fr.run), []byte(input0), 0o644)
		}
		if base.Err != nil {
			m := base.Err.Msg
			if len(m) > 60 {
				m = m[:60]
			}
			st.RejectedMsgs[m]++
		}
	}
	lo := o
	lo.Lint = true
	lint0 := compileOn(input0, &lo, healthyDisk(f))
	st.Evaluations++
	fr.digest.Add(lint0.Key())
	if orc, d := unaryOracle(input0, &lo, &lint0); orc != "" {
		fr.report(orc, d, &FaultReplay{Kind: "baseline-lint", Desc: "unfaulted generated program, lint parser", Input: input0, Options: lo, Disk: healthyDisk(f), Result: &lint0})
	}
	if base.HasOut && lint0.Err != nil && lint0.Panic == "" && lint0.Budget == "" {
		fr.report("lint-superset", fmt.Sprintf("normal mode accepts, lint mode fails with %q", lint0.Err.Msg),
			&FaultReplay{Kind: "lint-superset", Desc: "same input, normal vs lint", Input: input0, Options: o, Disk: healthyDisk(f), Options2: &lo, Disk2: healthyDisk(f)})
	}
	if len(st.Samples) < 2 {
		b, _ := json.Marshal(map[string]interface{}{"run": fr.run, "input": input0, "options": o, "tokens": len(toks), "baseline_accepted": base.HasOut,
			"faults": "EOF at each of the token boundaries (S1), plus seeded S2-S9 / E1-E10 variants"})
		st.Samples = append(st.Samples, b)
	}
	bk := base.Key()
	lk := lint0.Key()
	// S1: EOF at EVERY token boundary (enumerated)
	// (enumerated for programs of up to 400 tokens - the bound stated in DESIGN.md section 6;
	// a longer program gets 150 evenly spread boundaries, otherwise the cost is quadratic)
	stride := 1
	if len(toks) > 400 {
		stride = (len(toks) + 149) / 150
	}
	for k := 0; k < len(toks); k += stride {
		in := filegen.Join(toks[:k], 1, nil)
		if k == 0 {
			in = ""
		}
		if k%3 == 0 {
			fr.observe("S1_eof_at_token_boundary", fmt.Sprintf("EOF after token %d of %d (lint)", k, len(toks)), in, &lo, healthyDisk(f), lk)
		} else {
			fr.observe("S1_eof_at_token_boundary", fmt.Sprintf("EOF after token %d of %d", k, len(toks)), in, &o, healthyDisk(f), bk)
		}
	}
	if stride == 1 {
		fr.st.InnerPrograms++
		fr.st.InnerAssign += int64(len(toks))
	}
	fr2 := rng.New(rng.Sub(fr.seed, "faultplan"))
	mode := func() *comp.Options {
		if fr2.P(0.3) {
			return &lo
		}
		return &o
	}
	bkOf := func(m *comp.Options) string {
		if m.Lint {
			return lk
		}
		return bk
	}
	if len(toks) > 0 {
		// S2: EOF inside a token
		for n := 0; n < 3; n++ {
			k := fr2.Intn(len(toks))
			t := toks[k]
			if len(t) < 2 {
				continue
			}
			cut := fr2.Range(1, len(t)-1)
			for cut > 0 && !utf8.RuneStart(t[cut]) {
				cut--
			}
			in := filegen.Join(append(append([]string{}, toks[:k]...), t[:cut]), 1, nil)
			in = strings.TrimSuffix(in, "\n")
			m := mode()
			fr.observe("S2_eof_inside_token", fmt.Sprintf("EOF inside token %d (%q cut at %d)", k, t, cut), in, m, healthyDisk(f), bkOf(m))
		}
		// S3-S7: loss / duplication / swap / replacement / insertion, up to 3 faults per plan
		for n := 0; n < 10; n++ {
			tt := append([]string{}, toks...)
			nf := fr2.Range(1, 3)
			kind := ""
			desc := ""
			for j := 0; j < nf && len(tt) > 0; j++ {
				k := fr2.Intn(len(tt))
				switch fr2.Intn(5) {
				case 0:
					kind = "S3_token_lost"
					desc += fmt.Sprintf("token %d %q lost; ", k, tt[k])
					tt = append(tt[:k:k], tt[k+1:]...)
				case 1:
					kind = "S4_token_duplicated"
					desc += fmt.Sprintf("token %d %q duplicated; ", k, tt[k])
					tt = append(tt[:k+1:k+1], tt[k:]...)
				case 2:
					kind = "S5_tokens_swapped"
					if k+1 < len(tt) {
						desc += fmt.Sprintf("tokens %d,%d swapped; ", k, k+1)
						tt[k], tt[k+1] = tt[k+1], tt[k]
					}
				case 3:
					kind = "S6_token_replaced"
					w := soupVocab[fr2.Intn(len(soupVocab))]
					if fr2.P(0.15) {
						w = unicodeZoo[fr2.Intn(len(unicodeZoo))]
					}
					desc += fmt.Sprintf("token %d %q replaced by %q; ", k, tt[k], w)
					tt[k] = w
				default:
					kind = "S7_token_inserted"
					w := soupVocab[fr2.Intn(len(soupVocab))]
					if fr2.P(0.15) {
						w = unicodeZoo[fr2.Intn(len(unicodeZoo))]
					}
					desc += fmt.Sprintf("%q inserted before token %d; ", w, k)
					tt = append(tt[:k:k], append([]string{w}, tt[k:]...)...)
				}
			}
			m := mode()
			fr.observe(kind, desc, filegen.Join(tt, 1, nil), m, healthyDisk(f), bkOf(m))
		}
	}
	// S8: a valid-UTF-8 rune inserted anywhere
	for n := 0; n < 4; n++ {
		pos := fr2.Intn(len(input0) + 1)
		for pos > 0 && pos < len(input0) && !utf8.RuneStart(input0[pos]) {
			pos--
		}
		ins := insertRunes[fr2.Intn(len(insertRunes))]
		switch fr2.Intn(3) {
		case 0:
			ins = unicodeZoo[fr2.Intn(len(unicodeZoo))]
		case 1:
			// a random valid code point
			for {
				c := rune(0x80 + fr2.Intn(0x2ff80))
				if c >= 0xd800 && c <= 0xdfff {
					continue
				}
				ins = string(c)
				break
			}
		}
		m := mode()
		fr.observe("S8_rune_inserted", fmt.Sprintf("%q inserted at byte %d", ins, pos), input0[:pos]+ins+input0[pos:], m, healthyDisk(f), bkOf(m))
	}
	// S9: token soup with no program behind it
	for n := 0; n < 3; n++ {
		k := fr2.Range(1, 40)
		var tt []string
		for j := 0; j < k; j++ {
			if fr2.P(0.1) {
				tt = append(tt, unicodeZoo[fr2.Intn(len(unicodeZoo))])
			} else {
				tt = append(tt, soupVocab[fr2.Intn(len(soupVocab))])
			}
		}
		m := mode()
		fr.observe("S9_token_soup", "random token sequence", strings.Join(tt, " "), m, healthyDisk(f), "")
	}
	// S10: pathological repetition (deep nesting / long chains): stack depth and
	// super-linear behaviour show here, nowhere else
	for n := 0; n < 1; n++ {
		pre := []string{"", "script S {", "script S { if (", "script S { x(", "text T {", "movement M {", "mart M {", "mapscripts M {", "const A = ", "script S { switch (var(A)) {"}[fr2.Intn(10)]
		pats := [][2]string{{"(", ")"}, {"!(", ")"}, {"if (flag(A)) {", "}"}, {"while {", "}"}, {"do {", "} while (flag(A))"}, {"switch (var(A)) { case 1:", "}"},
			{"poryswitch(GAME_VERSION) { RUBY {", "} }"}, {"moves(", ")"}, {"format(", ")"}, {"flag(A) && ", ""}, {"flag(A) || ", ""}, {"!", ""}, {"\"x\" ", ""}, {"x(", ")"}, {"[", "]"},
			{"case 1: ", ""}, {"if (flag(A)) {} elif (flag(B)) {} ", ""}, {"L: ", ""}, {"a * 9999 ", ""}, {"A, 1: B ", ""}, {"const A = A ", ""}, {"# c\n", ""}, {"`", ""}, {"{", "}"}, {"poryswitch(A) { _: ", "}"}}
		pt := pats[fr2.Intn(len(pats))]
		k := []int{3, 17, 64, 300}[fr2.Intn(4)]
		if fr2.P(0.08) {
			k = 1500
		}
		if strings.Contains(pt[0], "9999") && k > 17 {
			k = 17 // each repetition is 10^4 output lines already
		}
		in := pre + " " + strings.Repeat(pt[0], k)
		if fr2.Bool() {
			in += " flag(A) " + strings.Repeat(pt[1], k)
		}
		if fr2.Bool() {
			in += " }"
		}
		m := mode()
		fr.observe("S10_pathological_repetition", fmt.Sprintf("%q + %q x %d", pre, pt[0], k), in, m, healthyDisk(f), "")
	}
	// S11: one very long token (word in a text, identifier, number): fixed-size buffers
	// and "split at a space" loops show here
	{
		unit := []string{"A", "é", "9", "x_", "ポ"}[fr2.Intn(5)]
		k := []int{31, 32, 33, 64, 127, 128, 254, 255, 256, 257, 300, 1000}[fr2.Intn(12)]
		if fr2.P(0.05) {
			k = []int{4096, 5000}[fr2.Intn(2)]
		}
		tok := strings.Repeat(unit, k)
		tmpl := []string{"text T { \"%s\" }", "text T { \"a %s b\" }", "script S { msgbox(\"%s\") }", "script S { msgbox(format(\"%s\")) }", "script S { msgbox(format(\"aa %s bb cc\", 100)) }",
			"script S { %s }", "script S { x(%s) }", "script S { if (flag(%s)) { } }", "movement M { %s }", "mart M { %s }", "const %s = 1", "script %s { }", "script S { L%s: goto(L%s) }",
			"text T { ascii\"%s\" }", "raw `%s`", "script S { switch (var(%s)) { case %s: x } }", "mapscripts M { %s: S }"}[fr2.Intn(17)]
		in := strings.ReplaceAll(tmpl, "%s", tok)
		m := mode()
		fr.observe("S11_very_long_token", fmt.Sprintf("%q with a %d x %q token", tmpl, k, unit), in, m, healthyDisk(f), "")
	}
	// S12: corner cases of the grammar where work or text could multiply or recurse:
	// chained multipliers, constants defined from themselves / each other / later ones,
	// nested poryswitch, format() with extreme numbers
	{
		n1 := []string{"9999", "0x270F", "10000", "1", "0", "-1", "2", "99999999999999999999"}[fr2.Intn(8)]
		n2 := []string{"9999", "1000", "2", "0x270F"}[fr2.Intn(4)]
		corner := []string{
			"movement M { a * " + n1 + " * " + n2 + " * 9999 }",
			"script S { x(moves(a * " + n1 + " * " + n2 + ")) }",
			"movement M { a * " + n1 + " b * " + n2 + " * }",
			"const A = A script S { x(A) if (var(A) == A) { y(A) } }",
			"const A = B const B = A mart M { A B } script S { x(A, B) }",
			"const A = B const B = C const C = A mapscripts M { T [ A, B: S ] }",
			"const A = A A const B = A A script S { switch (var(A)) { case B: x } }",
			"const A = x x x x x x x x const B = A A A A A A A A const C = B B B B B B B B const D = C C C C C C C C script S { y(D) }",
			"script S { poryswitch(A) { _: poryswitch(A) { _: poryswitch(A) { _: poryswitch(A) { _: x } } } } }",
			"text T { format(\"a b c d e f g h i j k l m n o p q r s t u v w x y z\", " + n1 + ", numLines=" + n2 + ") }",
			"text T { format(\"a b c d e f\", maxLineLength=" + n1 + ", cursorOverlapWidth=" + n2 + ", numLines=" + n1 + ") }",
			"script S { x(format(\"aaaa bbbb cccc\", \"TEST\", " + n1 + ")) }",
			"mart M { poryswitch(A) { _ { poryswitch(A) { _ { I } } } } }",
			"movement M { poryswitch(A) { _: a * " + n1 + " } poryswitch(A) { _ { b * " + n2 + " } } }",
			"script S { switch (var(A)) { case " + n1 + ": case " + n2 + ": case -" + n2 + ": x } }",
			"script S { if (var(A) > value(" + n1 + " * (" + n2 + " + (1)))) { x } }",
		}[fr2.Intn(16)]
		if fr2.P(0.12) {
			// several scripts that each fail at EMISSION (a user label named like a generated
			// sub-label of its script): the answer must still be ONE located error
			var sb strings.Builder
			for i, k := 0, fr2.Range(2, 6); i < k; i++ {
				fmt.Fprintf(&sb, "script S%d { S%d_%d: if (flag(A)) { x } elif (var(B) == 2) { y } else { z } w }\n", i, i, fr2.Range(1, 3))
			}
			corner = sb.String()
		}
		if fr2.P(0.1) {
			// many mapscripts statements, each with inline scripts (work that an implementation
			// may fan out and nest: statement -> inline scripts)
			var sb strings.Builder
			for i, k := 0, fr2.Range(3, 9); i < k; i++ {
				fmt.Fprintf(&sb, "mapscripts M%d { MAP_SCRIPT_ON_LOAD { a%d } MAP_SCRIPT_ON_TRANSITION { if (flag(F)) { b } } MAP_SCRIPT_ON_FRAME_TABLE [ VAR_T, %d { c } VAR_U, 1: S ] }\n", i, i, i)
			}
			sb.WriteString("script S { end }\n")
			corner = sb.String()
		}
		if fr2.P(0.15) {
			// a chain of constants each defined as two copies of the previous one
			depth := fr2.Range(8, 24)
			var sb strings.Builder
			sb.WriteString("const A0 = x x\n")
			for i := 1; i <= depth; i++ {
				fmt.Fprintf(&sb, "const A%d = A%d A%d\n", i, i-1, i-1)
			}
			fmt.Fprintf(&sb, "script S { y(A%d) }\n", depth)
			corner = sb.String()
		}
		m := mode()
		fr.observe("S12_grammar_corner_case", corner, corner, m, healthyDisk(f), "")
	}
	// E: environment faults on the well-formed program
	fj := f.Fonts.JSON()
	for n := 0; n < 8; n++ {
		eo := o
		eo.Switches = map[string]string{}
		for k, v := range o.Switches {
			eo.Switches[k] = v
		}
		d := healthyDisk(f)
		kind := ""
		desc := ""
		switch fr2.Intn(11) {
		case 0:
			kind, desc = "E1_font_enoent", "font file missing"
			d.Fault = DiskFault{Kind: "enoent"}
		case 1:
			kind, desc = "E2_font_eio", "font file read error"
			d.Fault = DiskFault{Kind: "eio"}
		case 2:
			kind, desc = "E3_font_empty", "font file empty"
			d.Fault = DiskFault{Kind: "empty"}
		case 3:
			off := fr2.Intn(len(fj) + 1)
			kind, desc = "E4_font_torn", fmt.Sprintf("font file torn at %d of %d", off, len(fj))
			d.Fault = DiskFault{Kind: "torn", Offset: off}
		case 4:
			off := fr2.Intn(len(fj))
			kind, desc = "E5_font_byte_flipped", fmt.Sprintf("font file byte %d flipped", off)
			d.Fault = DiskFault{Kind: "flip", Offset: off}
		case 5:
			kind, desc = "E6_font_fields_missing", "well-formed font JSON with missing / zero / negative fields"
			d.Files["font_config.json"] = []byte([]string{`{}`, `{"fonts":{}}`, `{"defaultFontId":"x","fonts":{"x":{}}}`, `{"defaultFontId":"x","fonts":{"x":{"widths":{},"numLines":0,"maxLineLength":-1,"cursorOverlapWidth":-7}}}`,
				`{"defaultFontId":"nope","fonts":{"x":{"widths":{"default":0},"numLines":-2,"maxLineLength":0}}}`, `null`, `[]`, `{"fonts":null}`, `{"defaultFontId":"x","fonts":{"x":{"widths":null,"maxLineLength":1,"numLines":1}}}`}[fr2.Intn(9)])
		case 6:
			kind, desc = "E7_default_font_unknown", "default font id unknown"
			eo.DefaultFont = []string{"bogus", "TEST", " ", "1_latin_rse "}[fr2.Intn(4)]
		case 7:
			kind, desc = "E8_line_length", "default line length <= 0 or huge"
			eo.MaxLen = []int{-1, -1 << 40, 1, 1 << 40, 0}[fr2.Intn(5)]
		case 8:
			kind, desc = "E9_switches", "switches nil / empty / key missing / unmatched value"
			switch fr2.Intn(5) {
			case 0:
				eo.Switches = nil
				eo.NilSwitches = true
			case 1:
				eo.Switches = map[string]string{}
			case 2:
				if ks := SortedKeys(eo.Switches); len(ks) > 0 {
					delete(eo.Switches, ks[fr2.Intn(len(ks))])
				}
			case 3:
				for _, k := range SortedKeys(eo.Switches) {
					eo.Switches[k] = "NO_SUCH_VALUE"
				}
			default:
				for _, k := range SortedKeys(eo.Switches) {
					eo.Switches[k] = "_"
				}
			}
		case 9:
			kind, desc = "E10_command_config", "command config nil / arg position out of range / negative"
			switch fr2.Intn(5) {
			case 4:
				// entries with neither field set (legal JSON: "cmd": {})
				eo.AutoVars = map[string]comp.AutoVar{}
				for _, k := range SortedKeys(o.AutoVars) {
					eo.AutoVars[k] = comp.AutoVar{}
				}
				eo.AutoVars["msgbox"] = comp.AutoVar{}
			case 0:
				eo.AutoVars = nil
			case 1:
				eo.AutoVars = map[string]comp.AutoVar{}
				for _, k := range SortedKeys(o.AutoVars) {
					p := 7
					eo.AutoVars[k] = comp.AutoVar{ArgPos: &p}
				}
			case 2:
				eo.AutoVars = map[string]comp.AutoVar{}
				for _, k := range SortedKeys(o.AutoVars) {
					p := -1 - fr2.Intn(3)
					eo.AutoVars[k] = comp.AutoVar{ArgPos: &p}
				}
				p := -1
				eo.AutoVars["msgbox"] = comp.AutoVar{ArgPos: &p}
			default:
				eo.AutoVars = map[string]comp.AutoVar{"msgbox": {VarName: ""}, "lock": {VarName: "VAR_RESULT"}, "setvar": {}}
			}
		default:
			kind, desc = "E11_font_path", "font path empty / a directory-like name"
			eo.FontPath = []string{"", "nope/", "font_config.json.bak"}[fr2.Intn(3)]
		}
		fr.observe(kind, desc, input0, &eo, d, bk)
		// lint must not depend on switches or fonts at all
		if kind != "E10_command_config" {
			elo := eo
			elo.Lint = true
			d2 := cloneDisk(d)
			lres := fr.observe(kind, desc+" (lint)", input0, &elo, d2, lk)
			if lres.Key() != lk && lres.Panic == "" && lres.Budget == "" && lint0.Panic == "" && lint0.Budget == "" && !fr.hung {
				fr.report("lint-env", fmt.Sprintf("lint result depends on the environment (%s): %.200q vs %.200q", desc, lk, lres.Key()),
					&FaultReplay{Kind: "lint-env", Desc: desc, Input: input0, Options: lo, Disk: healthyDisk(f), Options2: &elo, Disk2: d})
			}
		}
	}
}

// FaultReplayRun re-executes a fault replay.
func FaultReplayRun(r *Replay) (string, string) {
	if r.Fault == nil {
		return "", "replay has no fault case"
	}
	return faultEval(r.Fault)
}

package engine

import (
	"bytes"
	"context"
	"encoding/json"
	"fmt"
	"os"
	"os/exec"
	"path/filepath"
	"sort"
	"strings"
	"time"

	"verifsim/internal/comp"
)

// The command-line front end (package main of the repository: flag parsing, command-config
// loading, file I/O) cannot be linked into the simulator. It is built as is from the plain
// copy of the working tree and run as a SUBPROCESS for a sample of the compilations; its
// output file must equal what the library call returned for the same input and options.

type cliRunner struct {
	bin string
	dir string
	n   int64
}

func newCLI(scratchHint string) *cliRunner {
	bin := os.Getenv("VERIF_CLI")
	if bin == "" {
		return nil
	}
	if _, err := os.Stat(bin); err != nil {
		return nil
	}
	dir := filepath.Join(filepath.Dir(scratchHint), fmt.Sprintf("cli.%d", os.Getpid()))
	if scratchHint == "" {
		dir = filepath.Join(os.TempDir(), fmt.Sprintf("verifsim-cli.%d", os.Getpid()))
	}
	if err := os.MkdirAll(dir, 0o755); err != nil {
		return nil
	}
	return &cliRunner{bin: bin, dir: dir}
}

func (c *cliRunner) close() {
	if c != nil {
		os.RemoveAll(c.dir)
	}
}

// compile runs the front end; ok=false means it exited non-zero (compile error).
func (c *cliRunner) compile(src string, o *comp.Options, fontJSON []byte) (string, bool, string) {
	out, code, stderr := c.run(src, o, fontJSON)
	if code != 0 {
		return "", false, stderr
	}
	return out, true, stderr
}

// run executes the front end once and returns the output file's content, the exit status
// (-1: killed / could not start; -2: still running after 20 s, killed) and stderr.
func (c *cliRunner) run(src string, o *comp.Options, fontJSON []byte) (string, int, string) {
	c.n++
	write := func(name string, b []byte) { _ = os.WriteFile(filepath.Join(c.dir, name), b, 0o644) }
	write("prog.pory", []byte(src))
	if fontJSON == nil {
		fontJSON = []byte(`{"defaultFontId":"f","fonts":{"f":{"widths":{"default":6},"maxLineLength":200,"numLines":2}}}`)
	}
	write("font.json", fontJSON)
	args := []string{"-i", "prog.pory", "-o", "out.inc", "-fc", "font.json",
		fmt.Sprintf("-optimize=%v", o.Optimize), fmt.Sprintf("-lm=%v", o.LineMarkers)}
	if o.AutoVars != nil {
		cfg := map[string]map[string]comp.AutoVar{"autovar_commands": o.AutoVars}
		b, _ := json.Marshal(cfg)
		write("cc.json", b)
		args = append(args, "-cc", "cc.json")
	} else {
		args = append(args, "-cc", "")
	}
	if o.DefaultFont != "" {
		args = append(args, "-f", o.DefaultFont)
	}
	if o.MaxLen != 0 {
		args = append(args, "-l", fmt.Sprint(o.MaxLen))
	}
	keys := make([]string, 0, len(o.Switches))
	for k := range o.Switches {
		keys = append(keys, k)
	}
	sort.Strings(keys)
	for _, k := range keys {
		args = append(args, "-s", k+"="+o.Switches[k])
	}
	// Every other invocation writes over the output file of the previous one, as a build
	// that recompiles into the same .inc does (seeded change C05-25: file opened without
	// O_TRUNC); the others start without an output file.
	if c.n%2 == 0 {
		os.Remove(filepath.Join(c.dir, "out.inc"))
	}
	ctx, cancel := context.WithTimeout(context.Background(), 20*time.Second)
	defer cancel()
	cmd := exec.CommandContext(ctx, c.bin, args...)
	cmd.Dir = c.dir
	var stderr bytes.Buffer
	cmd.Stderr = &stderr
	if err := cmd.Run(); err != nil {
		if ctx.Err() != nil {
			return "", -2, stderr.String()
		}
		if ee, ok := err.(*exec.ExitError); ok && ee.ExitCode() >= 0 {
			return "", ee.ExitCode(), stderr.String()
		}
		return "", -1, stderr.String() + " " + err.Error()
	}
	b, err := os.ReadFile(filepath.Join(c.dir, "out.inc"))
	if err != nil {
		return "", 1, "front end exited 0 but wrote no output file: " + err.Error()
	}
	return string(b), 0, ""
}

// cliCrashCheck runs the front end on an input the library answered with a located error or
// with output (C18: every input is answered, never a crash - also by the program users
// run). It returns "" unless the front end crashed or answered the other way round.
func cliCrashCheck(src string, o *comp.Options, lib *comp.Result, fontJSON []byte) string {
	if cli == nil || o.Lint || lib.Panic != "" || lib.Budget != "" || o.NilSwitches || (o.LineMarkers && o.Path != "prog.pory") {
		return ""
	}
	_, code, stderr := cli.run(src, o, fontJSON)
	switch {
	case code == -2, code == -1 && !strings.Contains(stderr, "panic:") && !strings.Contains(stderr, "fatal error:"):
		return "" // no verdict on wall-clock grounds (the library path has the tick budget) or when the process could not be started
	case code == 0 && lib.HasOut, code == 1 && !lib.HasOut && strings.Contains(stderr, "PORYSCRIPT ERROR"):
		return ""
	case strings.Contains(stderr, "panic:") || strings.Contains(stderr, "goroutine ") || strings.Contains(stderr, "fatal error:") || code < 0 || code > 1:
		return fmt.Sprintf("the command-line front end crashed (exit status %d) where the library call answers %s: %.300s", code, libAnswer(lib), stderr)
	}
	return fmt.Sprintf("the command-line front end exits with status %d (%.200s) where the library call answers %s", code, stderr, libAnswer(lib))
}

func libAnswer(lib *comp.Result) string {
	if lib.HasOut {
		return "with output"
	}
	if lib.Err != nil {
		return fmt.Sprintf("with the error %q", lib.Err.Msg)
	}
	return "with neither output nor error"
}

// cli is the worker's front-end runner (nil = not available).
var cli *cliRunner

// cliCheck compares the front end with the library result for one compilation.
// It returns "" when they agree (or the front end is not available).
func cliCheck(src string, o *comp.Options, lib *comp.Result, fontJSON []byte) string {
	if cli == nil || !lib.HasOut {
		return ""
	}
	if o.LineMarkers && o.Path != "prog.pory" {
		return ""
	}
	out, code, errText := cli.run(src, o, fontJSON)
	if code < 0 {
		return "" // the subprocess could not be started or was still running after 20 s: no verdict on such grounds
	}
	ok := code == 0
	if !ok {
		return fmt.Sprintf("the library call compiles the program, the command-line front end fails: %.300s", errText)
	}
	if out != lib.Out {
		return "the command-line front end writes different output than the library call for the same input and options: " + firstDiff(lib.Out, out)
	}
	return ""
}

package engine

import (
	"bufio"
	"bytes"
	"encoding/json"
	"fmt"
	"io"
	"log"
	"os"
	"os/exec"

	"verifsim/internal/comp"
	"verifsim/internal/rng"
)

// Transparency check (DESIGN.md 3.1 step 4): a sample of the compilations of every
// campaign is repeated by a binary linked against a PLAIN copy of the working tree and
// must give byte-identical results. A mismatch means the instrumentation changed the
// compiler's behaviour -> infrastructure error (exit 2), never a violation.

type transpRec struct {
	Src  string       `json:"src"`
	Opts comp.Options `json:"opts"`
	Key  string       `json:"key"`
}

type transpLogger struct {
	w *bufio.Writer
	f *os.File
	n int
}

func newTranspLogger(path string) *transpLogger {
	if path == "" {
		return nil
	}
	f, err := os.Create(path)
	if err != nil {
		return nil
	}
	return &transpLogger{f: f, w: bufio.NewWriter(f)}
}

// maybe records the compilation with probability ~1/64 (keyed by content, so it is a
// deterministic function of the case), at most 400 per worker.
func (t *transpLogger) maybe(src string, o *comp.Options, res *comp.Result) {
	if t == nil || t.n >= 400 || res.Budget != "" || res.DiskReads > 0 {
		return
	}
	if rng.HashStr(src)%64 != 0 {
		return
	}
	b, _ := json.Marshal(transpRec{Src: src, Opts: *o, Key: res.Key()})
	t.w.Write(b)
	t.w.WriteByte('\n')
	t.n++
}

func (t *transpLogger) close() {
	if t == nil {
		return
	}
	t.w.Flush()
	t.f.Close()
}

// TranspMain runs in the PLAIN build: it recompiles every record and prints the number
// checked and the first mismatch.
func TranspMain(files []string) int {
	log.SetOutput(io.Discard)
	checked := 0
	for _, p := range files {
		f, err := os.Open(p)
		if err != nil {
			continue
		}
		sc := bufio.NewScanner(f)
		sc.Buffer(make([]byte, 1<<20), 1<<28)
		for sc.Scan() {
			var r transpRec
			if err := json.Unmarshal(sc.Bytes(), &r); err != nil {
				continue
			}
			// the plain build iterates maps in the runtime's random order: repeat to tell
			// "compiler is order dependent" (C17's business, not ours) from "instrumentation
			// changed behaviour"
			first := comp.Compile(r.Src, &r.Opts, comp.Limits{}, nil)
			stable := true
			for k := 0; k < 6; k++ {
				again := comp.Compile(r.Src, &r.Opts, comp.Limits{}, nil)
				if again.Key() != first.Key() {
					stable = false
					break
				}
			}
			checked++
			if stable && first.Key() != r.Key {
				rec, _ := json.Marshal(r)
				out, _ := json.Marshal(map[string]interface{}{"checked": checked, "record": string(rec),
					"mismatch": fmt.Sprintf("plain build: %.300q instrumented build: %.300q source: %.300q", first.Key(), r.Key, r.Src)})
				fmt.Println(string(out))
				f.Close()
				return 0
			}
		}
		f.Close()
	}
	fmt.Printf("{\"checked\":%d,\"mismatch\":\"\"}\n", checked)
	return 0
}

// RunTransp invokes the plain build on the sample files.
func RunTransp(plain, self string, files []string) (int64, string) {
	cmd := exec.Command(plain, append([]string{"transp"}, files...)...)
	var out bytes.Buffer
	cmd.Stdout = &out
	cmd.Stderr = os.Stderr
	if err := cmd.Run(); err != nil {
		return 0, "plain build failed to run: " + err.Error()
	}
	var r struct {
		Checked  int64  `json:"checked"`
		Mismatch string `json:"mismatch"`
		Record   string `json:"record"`
	}
	if err := json.Unmarshal(bytes.TrimSpace(out.Bytes()), &r); err != nil {
		return 0, "plain build gave unreadable output: " + out.String()
	}
	if r.Mismatch != "" && r.Record != "" && self != "" {
		// Is it the instrumentation, or does the compiler's result depend on what the
		// process compiled before (C17's business)? Decide with ONE compilation in a fresh
		// process of each build.
		kp, e1 := refKey(plain, r.Record)
		ki, e2 := refKey(self, r.Record)
		if e1 == nil && e2 == nil && kp == ki {
			fmt.Fprintln(os.Stderr, "NOTE: a sampled compilation gives different results depending on the compilations that ran before it in the process (plain and instrumented builds agree when each runs it alone); transparency of the instrumentation is not in question. See the C17 check.")
			return r.Checked, ""
		}
	}
	return r.Checked, r.Mismatch
}

func refKey(bin, rec string) (string, error) {
	cmd := exec.Command(bin, "refkey")
	cmd.Stdin = bytes.NewReader([]byte(rec))
	var out bytes.Buffer
	cmd.Stdout = &out
	if err := cmd.Run(); err != nil {
		return "", err
	}
	return out.String(), nil
}

// RefKeyMain: one compilation of a transparency record in a fresh process; prints its key.
func RefKeyMain() int {
	b, err := io.ReadAll(os.Stdin)
	if err != nil {
		return 2
	}
	var r transpRec
	if err := json.Unmarshal(b, &r); err != nil {
		return 2
	}
	res := comp.Compile(r.Src, &r.Opts, comp.Limits{}, nil)
	fmt.Print(res.Key())
	return 0
}

package engine

type HistReplay struct{}
type FaultReplay struct{}

func HistWorker(pm *Params) (*Stats, []*Failure)            { return NewStats(), nil }
func FaultWorker(pm *Params) (*Stats, []*Failure)           { return NewStats(), nil }
func HistReplayRun(r *Replay, self string) (string, string) { return "", "" }
func FaultReplayRun(r *Replay) (string, string)             { return "", "" }
func RefOpMain() int                                        { return 0 }

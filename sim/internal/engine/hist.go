package engine

import (
	"bytes"
	"encoding/json"
	"fmt"
	"io"
	"os"
	"os/exec"
	"regexp"
	"strings"

	"github.com/huderlem/poryscript/simhook"

	"verifsim/internal/comp"
	"verifsim/internal/filegen"
	"verifsim/internal/rng"
	"verifsim/internal/vm"
)

// Engine B - history simulation for C17 (DESIGN.md section 5).

// HistOp is one compilation request an embedding process may issue.
type HistOp struct {
	Src   string            `json:"src"`
	Opts  comp.Options      `json:"opts"`
	Files map[string]string `json:"files"`           // simulated disk content
	Fault DiskFault         `json:"fault,omitempty"` // the operation's own disk fault
	Note  string            `json:"note,omitempty"`
	// BadUTF8At >= 0: the byte 0xFF is inserted at this offset of Src before compiling
	// (kept out of Src so that operations survive JSON transport unchanged).
	BadUTF8At int `json:"bad_utf8_at"`
	// SharedSet: operations with the same set id are issued with the SAME caller-owned
	// config / switches map objects (passed by reference to successive parsers).
	SharedSet int `json:"shared_set"`
}

func (o *HistOp) hash() uint64 {
	b, _ := json.Marshal(o)
	return rng.HashStr(string(b))
}

func (o *HistOp) disk() *Disk {
	d := &Disk{Files: map[string][]byte{}, Fault: o.Fault}
	for k, v := range o.Files {
		d.Files[k] = []byte(v)
	}
	return d
}

// OrderPlan selects the permutation applied at every map-range visit of one operation.
type OrderPlan struct {
	Kind string `json:"kind"` // identity reverse rotate shuffle
	K    uint64 `json:"k,omitempty"`
}

func (p OrderPlan) fn() func(site string, visit, n int) []int {
	switch p.Kind {
	case "reverse":
		return func(site string, visit, n int) []int {
			out := make([]int, n)
			for i := range out {
				out[i] = n - 1 - i
			}
			return out
		}
	case "rotate":
		return func(site string, visit, n int) []int {
			out := make([]int, n)
			k := int(p.K%uint64(n-1)) + 1
			for i := range out {
				out[i] = (i + k) % n
			}
			return out
		}
	case "shuffle":
		return func(site string, visit, n int) []int {
			return rng.New(rng.H(p.K, uint64(visit), rng.HashStr(site))).Perm(n)
		}
	}
	return nil
}

type HistStep struct {
	Op    int       `json:"op"`
	Order OrderPlan `json:"order"`
}

type HistReplay struct {
	Pool    []HistOp   `json:"pool"`
	Steps   []HistStep `json:"steps"`
	FailAt  int        `json:"fail_at"`
	Want    string     `json:"want,omitempty"`
	Got     string     `json:"got,omitempty"`
	Clause2 *Clause2   `json:"clause2,omitempty"`
}

// Clause2 is a statement-independence case: item compiled inside a file vs alone.
type Clause2 struct {
	Whole      string            `json:"whole"`
	Alone      string            `json:"alone"`
	Name       string            `json:"name"`
	Kind       string            `json:"kind"`
	Tops       []string          `json:"tops"`
	Opts       comp.Options      `json:"opts"`
	Files      map[string]string `json:"files"`
	BlockWhole string            `json:"block_whole,omitempty"`
	BlockAlone string            `json:"block_alone,omitempty"`
}

var histLim = comp.Limits{Ticks: 50_000_000, Depth: 100_000}

// runOp executes one operation in THIS process, under the given order plan and with
// the given caller-owned shared objects.
func runOp(op *HistOp, plan OrderPlan, sh *comp.Shared) comp.Result {
	d := op.disk()
	Mount(d)
	simhook.OrderFn = plan.fn()
	src := op.Src
	if op.BadUTF8At >= 0 && op.BadUTF8At <= len(src) {
		src = src[:op.BadUTF8At] + "\xff" + src[op.BadUTF8At:]
	}
	res := comp.Compile(src, &op.Opts, histLim, sh)
	simhook.OrderFn = nil
	Mount(nil)
	return res
}

// RefOpMain is the reference executor: ONE operation, alone, in a pristine process,
// canonical map order. stdin: HistOp json; stdout: result key.
func RefOpMain() int {
	b, err := io.ReadAll(os.Stdin)
	if err != nil {
		return 2
	}
	var op HistOp
	if err := json.Unmarshal(b, &op); err != nil {
		fmt.Fprintln(os.Stderr, "refop: bad input:", err)
		return 2
	}
	res := runOp(&op, OrderPlan{}, nil)
	out, _ := json.Marshal(map[string]string{"key": res.Key()})
	os.Stdout.Write(out)
	return 0
}

type refCache struct {
	self string
	m    map[uint64]string
	n    int64
}

func (rc *refCache) get(op *HistOp) (string, error) {
	h := op.hash()
	if k, ok := rc.m[h]; ok {
		return k, nil
	}
	b, _ := json.Marshal(op)
	cmd := exec.Command(rc.self, "refop")
	cmd.Stdin = bytes.NewReader(b)
	var out bytes.Buffer
	cmd.Stdout = &out
	cmd.Stderr = io.Discard
	if err := cmd.Run(); err != nil {
		return "", fmt.Errorf("reference process failed: %v", err)
	}
	var r struct {
		Key string `json:"key"`
	}
	if err := json.Unmarshal(out.Bytes(), &r); err != nil {
		return "", fmt.Errorf("reference process gave unreadable output")
	}
	rc.m[h] = r.Key
	rc.n++
	return r.Key, nil
}

// histExec plays a history. It returns the index of the first step whose result
// differs from the reference (or -1), with oracle id and detail.
func histExec(pool []HistOp, steps []HistStep, rc *refCache, st *Stats, digest *Digest) (int, string, string, string, string) {
	shared := map[int]*comp.Shared{}
	sharedDigest := map[int]string{}
	for si, s := range steps {
		op := &pool[s.Op]
		sh := shared[op.SharedSet]
		if sh == nil {
			sh = &comp.Shared{Config: comp.NewSharedConfig(&op.Opts)}
			if !op.Opts.NilSwitches {
				sh.Switches = map[string]string{}
				for k, v := range op.Opts.Switches {
					sh.Switches[k] = v
				}
			}
			shared[op.SharedSet] = sh
			sharedDigest[op.SharedSet] = comp.ConfigDigest(sh.Config) + "|" + comp.MapDigest(sh.Switches)
		}
		want, err := rc.get(op)
		if err != nil {
			return si, "infrastructure", err.Error(), "", ""
		}
		res := runOp(op, s.Order, sh)
		got := res.Key()
		if st != nil {
			st.Evaluations++
			st.CompilerTicks += res.Ticks
			st.Unordered += int64(simhook.Unordered)
			fc := st.Fault("map_order_" + orderName(s.Order))
			fc.Configured++
			if res.Visits > 0 {
				fc.Fired++
			}
			if op.Fault.Kind != "" {
				f2 := st.Fault("disk_" + op.Fault.Kind)
				f2.Configured++
				if res.DiskReads > 0 {
					f2.Fired++
				}
			}
			if op.Note != "" {
				f3 := st.Fault(op.Note)
				f3.Configured++
				f3.Fired++
				if !res.HasOut {
					f3.Effective++
				}
			}
		}
		if digest != nil {
			digest.Add(got)
		}
		if got != want {
			if st != nil {
				st.Fault("map_order_"+orderName(s.Order)).Effective++
			}
			return si, "result-differs", fmt.Sprintf("step %d (op %d, map order %s): result differs from the same operation alone in a pristine process: %s", si, s.Op, orderName(s.Order), firstDiff(want, got)), want, got
		}
		now := comp.ConfigDigest(sh.Config) + "|" + comp.MapDigest(sh.Switches)
		if now != sharedDigest[op.SharedSet] {
			return si, "shared-state-written", fmt.Sprintf("step %d (op %d): the compilation wrote into caller-owned option maps: before %q after %q", si, s.Op, sharedDigest[op.SharedSet], now), sharedDigest[op.SharedSet], now
		}
	}
	return -1, "", "", "", ""
}

func orderName(p OrderPlan) string {
	if p.Kind == "" {
		return "identity"
	}
	return p.Kind
}

func firstDiff(a, b string) string {
	n := len(a)
	if len(b) < n {
		n = len(b)
	}
	i := 0
	for i < n && a[i] == b[i] {
		i++
	}
	lo := i - 40
	if lo < 0 {
		lo = 0
	}
	ha, hb := i+60, i+60
	if ha > len(a) {
		ha = len(a)
	}
	if hb > len(b) {
		hb = len(b)
	}
	return fmt.Sprintf("at byte %d: reference %q, here %q", i, a[lo:ha], b[lo:hb])
}

// ---------------------------------------------------------------------------------
// workload

func histOptions(r *rng.R, f *filegen.File) comp.Options {
	o := fgOptions(f)
	o.Optimize = r.Bool()
	o.LineMarkers = r.Bool()
	o.Path = []string{"", "a.pory", `C:\dir\"q".pory`}[r.Intn(3)]
	ids := f.Fonts.IDs()
	if r.P(0.3) {
		o.DefaultFont = ids[r.Intn(len(ids))]
	}
	if r.P(0.1) {
		o.DefaultFont = "nofont"
	}
	if r.P(0.3) {
		o.MaxLen = r.Range(20, 300)
	}
	o.Lint = r.P(0.15)
	if r.P(0.1) {
		// a switch value that matches no case, or no switches at all
		if r.Bool() {
			o.Switches = map[string]string{}
		} else {
			for _, k := range SortedKeys(o.Switches) {
				o.Switches[k] = "NOPE"
			}
		}
	}
	return o
}

func buildPool(r *rng.R) ([]HistOp, []*filegen.File, []string) {
	nFiles := r.Range(1, 3)
	var files []*filegen.File
	var srcs []string
	for i := 0; i < nFiles; i++ {
		cfg := filegen.DrawConfig(r)
		if r.P(0.5) {
			cfg.PFormat = 0.3 + r.Float()*0.5
			cfg.PText = 0.5
		}
		f := filegen.Gen(r, cfg)
		files = append(files, f)
		style := []int{1, 1, 1, 2, 3, 4}[r.Intn(6)]
		lr := rng.New(r.U64())
		srcs = append(srcs, filegen.Join(f.Tokens(nil), style, lr.U64))
	}
	n := r.Range(4, 10)
	var pool []HistOp
	for i := 0; i < n; i++ {
		fi := r.Intn(nFiles)
		f := files[fi]
		op := HistOp{Src: srcs[fi], Opts: histOptions(r, f), Files: map[string]string{"font_config.json": string(f.Fonts.JSON())}, SharedSet: i, BadUTF8At: -1}
		if i > 0 && r.P(0.4) {
			// same option objects as an earlier operation (caller-owned maps shared by reference)
			j := r.Intn(i)
			op.Opts = pool[j].Opts
			op.SharedSet = pool[j].SharedSet
			op.Files = pool[j].Files
		}
		switch r.Intn(10) {
		case 0:
			// aborted compilation: input truncated at a seeded byte (rune boundary)
			cut := r.Intn(len(op.Src) + 1)
			for cut > 0 && cut < len(op.Src) && (op.Src[cut]&0xC0) == 0x80 {
				cut--
			}
			op.Src = op.Src[:cut]
			op.Note = "aborted_truncated_input"
		case 1:
			// the lexer's documented panic on invalid UTF-8, recovered by the embedder
			pos := r.Intn(len(op.Src) + 1)
			for pos > 0 && pos < len(op.Src) && (op.Src[pos]&0xC0) == 0x80 {
				pos--
			}
			op.BadUTF8At = pos
			op.Note = "aborted_invalid_utf8_panic"
		case 2:
			op.Fault = DiskFault{Kind: []string{"enoent", "eio", "empty", "torn", "flip"}[r.Intn(5)], Offset: r.Intn(200)}
		case 7:
			// a legal font config that names no default font (format() without a font id then
			// has no font at all - whatever the compiler does must not depend on map order)
			op.Files = map[string]string{"font_config.json": string(f.Fonts.WithoutDefault().JSON())}
			op.Opts.DefaultFont = ""
			op.SharedSet = i
			op.Note = "font_config_without_default"
		case 6:
			// the same source under ANOTHER project's font config (same path, same font ids,
			// other metrics): nothing computed for one config may be reused for the other
			op.Files = map[string]string{"font_config.json": string(f.Fonts.Variant(r).JSON())}
			op.SharedSet = i
			op.Note = "other_font_config_same_path"
		case 4:
			// ill-formed: 1-3 top-level statements written twice (duplicate text / movement
			// labels: error paths that walk the parser's tables)
			var tt []string
			dups := r.Range(1, 3)
			for k, it := range f.Items {
				tt = append(tt, it.Toks...)
				if dups > 0 && it.Kind != "const" && (r.P(0.5) || len(f.Items)-k <= dups) {
					tt = append(tt, it.Toks...)
					dups--
				}
			}
			for _, it := range f.Items {
				// a text named like a hoisted label of a script in this file
				if it.Kind == "script" && r.P(0.3) {
					tt = append(tt, "text", it.Name+"_Text_0", "{", `"clash"`, "}")
				}
				if it.Kind == "script" && r.P(0.2) {
					tt = append(tt, "movement", it.Name+"_Movement_0", "{", "walk_up", "}")
				}
			}
			op.Src = filegen.Join(tt, 1, nil)
			op.Note = "illformed_duplicated_statements"
		case 8:
			// ill-formed at EMISSION: user labels named like the sub-labels / text labels the
			// emitter generates for the same script ("duplicate script label"), in every script
			// of the file - so that several top-level statements fail and the error that is
			// reported must still be the same every time (the first in source order)
			var tt []string
			for _, it := range f.Items {
				toks := it.Toks
				if it.Kind == "script" {
					for bi, t := range toks {
						if t == "{" {
							lbl := fmt.Sprintf("%s_%d", it.Name, r.Range(1, 3))
							if r.P(0.2) {
								lbl = it.Name + "_Text_0"
							}
							toks = append(append(append([]string{}, toks[:bi+1]...), lbl, ":"), toks[bi+1:]...)
							break
						}
					}
				}
				tt = append(tt, toks...)
			}
			op.Src = filegen.Join(tt, 1, nil)
			op.Note = "illformed_generated_label_clash"
		case 5:
			// ill-formed: seeded token loss / duplication / swap / replacement
			tt := append([]string{}, f.Tokens(nil)...)
			for k := r.Range(1, 3); k > 0 && len(tt) > 1; k-- {
				j := r.Intn(len(tt) - 1)
				switch r.Intn(4) {
				case 0:
					tt = append(tt[:j:j], tt[j+1:]...)
				case 1:
					tt = append(tt[:j+1:j+1], tt[j:]...)
				case 2:
					tt[j], tt[j+1] = tt[j+1], tt[j]
				default:
					tt[j] = soupVocab[r.Intn(len(soupVocab))]
				}
			}
			op.Src = filegen.Join(tt, 1, nil)
			op.Note = "illformed_token_faults"
		case 3:
			// unknown font id written in the source: the error message lists the known ids
			op.Src += "\ntext UnknownFont { format(\"some text\", \"nofont\") }\n"
			op.Note = "unknown_font_in_source"
		}
		pool = append(pool, op)
	}
	return pool, files, srcs
}

func drawOrder(r *rng.R) OrderPlan {
	switch r.Intn(5) {
	case 0:
		return OrderPlan{}
	case 1:
		return OrderPlan{Kind: "reverse"}
	case 2:
		return OrderPlan{Kind: "rotate", K: r.U64() % 7}
	}
	return OrderPlan{Kind: "shuffle", K: r.U64()}
}

// HistWorker runs the history campaign slice of one worker.
func HistWorker(pm *Params) (*Stats, []*Failure) {
	st := NewStats()
	var fails []*Failure
	var dist []uint64
	total := &Digest{}
	rc := &refCache{self: pm.SelfExe, m: map[uint64]string{}}
	transp = newTranspLogger(pm.TranspOut)
	defer func() { transp.close(); transp = nil }()
	for i := pm.From; i < pm.Count; i += pm.Stride {
		seed := rng.RunSeed(pm.VerifSeed, "C17", i)
		beginRun(pm, i)
		comp.SchedSeed = rng.Sub(seed, "sched")
		digest := &Digest{}
		r := rng.New(rng.Sub(seed, "gen"))
		pool, files, srcs := buildPool(r)
		hr := rng.New(rng.Sub(seed, "history"))
		n := hr.Range(5, 40)
		var steps []HistStep
		for j := 0; j < n; j++ {
			steps = append(steps, HistStep{Op: hr.Intn(len(pool)), Order: drawOrder(hr)})
		}
		st.Runs++
		st.Programs += int64(len(pool))
		at, oracle, detail, want, got := histExec(pool, steps, rc, st, digest)
		if oracle == "infrastructure" {
			fmt.Fprintln(os.Stderr, "INFRASTRUCTURE:", detail)
			os.Exit(2)
		}
		// distinct / non-trivial
		if histNontrivial(steps) {
			var sb strings.Builder
			for _, s := range steps {
				fmt.Fprintf(&sb, "%d:%s:%d;", pool[s.Op].hash(), s.Order.Kind, s.Order.K)
			}
			dist = append(dist, rng.HashStr(sb.String()))
		}
		if len(st.Samples) < 2 && oracle == "" {
			var hs []string
			for _, s := range steps {
				hs = append(hs, fmt.Sprintf("op%d/%s", s.Op, orderName(s.Order)))
			}
			b, _ := json.Marshal(map[string]interface{}{"run": i, "pool_size": len(pool), "history": hs, "op0_source": pool[0].Src, "op0_options": pool[0].Opts})
			st.Samples = append(st.Samples, b)
		}
		if oracle != "" {
			rp := &HistReplay{Pool: pool, Steps: steps, FailAt: at, Want: want, Got: got}
			rp = histMinimize(rp, oracle, rc)
			fails = appendHistFailure(pm, st, fails, i, seed, oracle, detail, rp)
		}
		// clause 2: statement independence
		c2r := rng.New(rng.Sub(seed, "clause2"))
		for fi, f := range files {
			_ = srcs
			if c := clause2Check(f, c2r, st, digest); c != nil {
				fails = appendHistFailure(pm, st, fails, i*10+uint64(fi)+1, seed, "statement-dependence",
					fmt.Sprintf("code emitted for %s %s differs between the whole file and the statement compiled alone", c.Kind, c.Name), &HistReplay{Clause2: c})
			}
		}
		total.Add(digest.Hex())
		if pm.PerRun {
			st.PerRun = append(st.PerRun, fmt.Sprintf("%d %s", i, digest.Hex()))
		}
		if len(fails) >= pm.MaxFail {
			break
		}
	}
	st.Replayed = rc.n
	st.Digest = total.Hex()
	if pm.DistinctOut != "" {
		writeHashes(pm.DistinctOut, dist)
	}
	return st, fails
}

func appendHistFailure(pm *Params, st *Stats, fails []*Failure, run, seed uint64, oracle, detail string, rp *HistReplay) []*Failure {
	r := &Replay{Version: 1, Engine: "hist", Property: "C17", Oracle: oracle, VerifSeed: pm.VerifSeed, Run: run, RunSeed: seed, Detail: detail, History: rp}
	fl := &Failure{Property: "C17", Oracle: oracle, Detail: detail, Replay: r}
	if id := pm.Known.Attribute(r); id != "" {
		st.KnownSeen[id]++
		return fails
	}
	path, err := WriteReplay(pm.ReplayDir, r)
	if err != nil {
		fl.Detail += " (could not write replay: " + err.Error() + ")"
	}
	fl.Path = path
	return append(fails, fl)
}

func histNontrivial(steps []HistStep) bool {
	if len(steps) < 3 {
		return false
	}
	repeated := false
	seen := map[int]int{}
	for i, s := range steps {
		if j, ok := seen[s.Op]; ok && j < i-1 {
			repeated = true
		}
		if _, ok := seen[s.Op]; !ok {
			seen[s.Op] = i
		}
	}
	nonid := false
	for _, s := range steps {
		if s.Order.Kind != "" {
			nonid = true
		}
	}
	return repeated && nonid
}

// histMinimize drops steps (and replaces order plans by simpler ones) while the same
// oracle still fails at the last step.
func histMinimize(rp *HistReplay, oracle string, rc *refCache) *HistReplay {
	steps := append([]HistStep{}, rp.Steps[:rp.FailAt+1]...)
	fails := func(s []HistStep) bool {
		at, or, _, _, _ := histExec(rp.Pool, s, rc, nil, nil)
		return or == oracle && at == len(s)-1
	}
	budget := 300
	for i := 0; i < len(steps)-1 && budget > 0; {
		cand := append(append([]HistStep{}, steps[:i]...), steps[i+1:]...)
		budget--
		if fails(cand) {
			steps = cand
		} else {
			i++
		}
	}
	for i := range steps {
		for _, simple := range []OrderPlan{{}, {Kind: "reverse"}} {
			if steps[i].Order == simple || budget <= 0 {
				continue
			}
			old := steps[i].Order
			steps[i].Order = simple
			budget--
			if fails(steps) {
				break
			}
			steps[i].Order = old
		}
	}
	out := &HistReplay{Pool: rp.Pool, Steps: steps, FailAt: len(steps) - 1}
	_, _, _, out.Want, out.Got = histExec(rp.Pool, steps, rc, nil, nil)
	// drop unused pool entries
	used := map[int]int{}
	var pool []HistOp
	for i := range out.Steps {
		o := out.Steps[i].Op
		if _, ok := used[o]; !ok {
			used[o] = len(pool)
			pool = append(pool, rp.Pool[o])
		}
		out.Steps[i].Op = used[o]
	}
	out.Pool = pool
	return out
}

// HistReplayRun re-executes a history replay against the current compiler.
func HistReplayRun(r *Replay, self string) (string, string) {
	h := r.History
	if h == nil {
		return "", "replay has no history"
	}
	if h.Clause2 != nil {
		c := *h.Clause2
		if clause2Eval(&c) {
			return "statement-dependence", fmt.Sprintf("block of %s %s differs:\n--- whole file\n%s\n--- alone\n%s", c.Kind, c.Name, c.BlockWhole, c.BlockAlone)
		}
		return "", ""
	}
	rc := &refCache{self: self, m: map[uint64]string{}}
	_, oracle, detail, _, _ := histExec(h.Pool, h.Steps, rc, nil, nil)
	return oracle, detail
}

// ---------------------------------------------------------------------------------
// clause 2: the code emitted for one top-level statement does not depend on the
// surrounding statements, apart from numbering and sharing of hoisted labels.

var reHoisted = regexp.MustCompile(`[A-Za-z_][A-Za-z0-9_]*_(Text|Movement)_\d+`)

// blockOf extracts the lines from the definition of name to the line before the next
// top-level name, with hoisted labels replaced by the content they denote.
func blockOf(out, name string, tops map[string]bool) (string, bool) {
	im := vm.Load(out)
	lines := strings.Split(out, "\n")
	start := -1
	for i, l := range lines {
		if l == name+":" || l == name+"::" {
			start = i
			break
		}
	}
	if start < 0 {
		return "", false
	}
	var sb []string
	for i := start; i < len(lines); i++ {
		l := lines[i]
		if i > start && len(l) > 0 && l[0] != '\t' && l[0] != ' ' && l[0] != '#' && l[0] != '.' {
			lab := strings.TrimRight(l, ":")
			if strings.HasSuffix(l, ":") && (tops[lab] || reHoisted.MatchString(lab) && reHoisted.FindString(lab) == lab) {
				break
			}
		}
		l = reHoisted.ReplaceAllStringFunc(l, func(m string) string {
			if c, ok := im.Content[m]; ok {
				return c
			}
			return m
		})
		sb = append(sb, l)
	}
	// trailing blank lines and the '.align 2' that belongs to a following mart
	for len(sb) > 0 && (strings.TrimSpace(sb[len(sb)-1]) == "" || sb[len(sb)-1] == "\t.align 2") {
		sb = sb[:len(sb)-1]
	}
	return strings.Join(sb, "\n"), true
}

func clause2Eval(c *Clause2) bool {
	tops := map[string]bool{}
	for _, t := range c.Tops {
		tops[t] = true
	}
	mk := func(src string) *HistOp {
		return &HistOp{Src: src, Opts: c.Opts, Files: c.Files, BadUTF8At: -1}
	}
	rw := runOp(mk(c.Whole), OrderPlan{}, nil)
	ra := runOp(mk(c.Alone), OrderPlan{}, nil)
	if !rw.HasOut || !ra.HasOut {
		if rw.HasOut != ra.HasOut && rw.HasOut {
			c.BlockWhole = "(whole file compiles)"
			c.BlockAlone = "(statement alone is rejected: " + ra.Key() + ")"
			return true
		}
		return false
	}
	bw, ok1 := blockOf(rw.Out, c.Name, tops)
	ba, ok2 := blockOf(ra.Out, c.Name, tops)
	c.BlockWhole, c.BlockAlone = bw, ba
	if !ok1 || !ok2 {
		return ok1 != ok2
	}
	return bw != ba
}

func clause2Check(f *filegen.File, r *rng.R, st *Stats, digest *Digest) *Clause2 {
	if len(f.Items) < 2 {
		return nil
	}
	o := fgOptions(f)
	o.Optimize = r.Bool()
	files := map[string]string{"font_config.json": string(f.Fonts.JSON())}
	var tops []string
	idx := map[string]int{}
	for i, it := range f.Items {
		if it.Kind != "const" {
			tops = append(tops, it.Name)
		}
		idx[it.Name] = i
	}
	whole := filegen.Join(f.Tokens(nil), 1, nil)
	for i, it := range f.Items {
		if it.Kind == "const" {
			continue
		}
		// the statement alone, after the consts it (transitively) uses
		need := map[int]bool{}
		var add func(names []string)
		add = func(names []string) {
			for _, n := range names {
				j := idx[n]
				if !need[j] {
					need[j] = true
					add(f.Items[j].Uses)
				}
			}
		}
		add(it.Uses)
		var only []int
		for j := range f.Items {
			if need[j] {
				only = append(only, j)
			}
		}
		only = append(only, i)
		c := &Clause2{Whole: whole, Alone: filegen.Join(f.Tokens(only), 1, nil), Name: it.Name, Kind: it.Kind, Tops: tops, Opts: o, Files: files}
		st.Evaluations++
		st.Fault("clause2_statement_alone").Configured++
		st.Fault("clause2_statement_alone").Fired++
		bad := clause2Eval(c)
		digest.Add(c.BlockWhole)
		if bad {
			return c
		}
	}
	return nil
}

package engine

import (
	"encoding/json"
	"os"
)

// KnownFinding is one entry of /verif/known_findings.json (committed, never written at
// run time). status "fixed" entries are documentation only and suppress nothing. An
// "open" entry names a built-in cause predicate + counterfactual (DESIGN.md 3.4).
type KnownFinding struct {
	ID        string `json:"id"`
	Status    string `json:"status"` // open | fixed
	Property  string `json:"property"`
	Commit    string `json:"commit,omitempty"`
	What      string `json:"what"`
	Predicate string `json:"predicate,omitempty"`
	Line      string `json:"line,omitempty"`
}

type KnownFindings struct {
	Findings []KnownFinding `json:"findings"`
}

func LoadKnown(path string) (*KnownFindings, error) {
	b, err := os.ReadFile(path)
	if err != nil {
		if os.IsNotExist(err) {
			return &KnownFindings{}, nil
		}
		return nil, err
	}
	var k KnownFindings
	if err := json.Unmarshal(b, &k); err != nil {
		return nil, err
	}
	return &k, nil
}

// predicates maps the name used in known_findings.json to the attribution test:
// cause predicate on the minimised replay AND its narrowest counterfactual cures it.
var predicates = map[string]func(r *Replay) bool{}

// Attribute returns the id of the open finding a minimised violation belongs to, or "".
func (k *KnownFindings) Attribute(r *Replay) string {
	if k == nil {
		return ""
	}
	for _, f := range k.Findings {
		if f.Status != "open" || f.Property != r.Property {
			continue
		}
		p := predicates[f.Predicate]
		if p != nil && p(r) {
			return f.ID
		}
	}
	return ""
}

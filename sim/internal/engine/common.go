// Package engine holds the three simulation engines (cosim, hist, fault) and what they
// share: run seeding, statistics, failures, replay files.
package engine

import (
	"crypto/sha256"
	"encoding/hex"
	"encoding/json"
	"fmt"
	"os"
	"path/filepath"
	"sort"

	"verifsim/internal/comp"
	"verifsim/internal/env"
	"verifsim/internal/model"
	"verifsim/internal/rng"
	"verifsim/internal/trace"
)

// Stats is what a worker measures. All fields merge by addition (maps key-wise).
type Stats struct {
	Runs           int64                  `json:"runs"`
	Evaluations    int64                  `json:"evaluations"`
	Programs       int64                  `json:"programs"`
	Rejected       int64                  `json:"rejected_programs"`
	RejectedMsgs   map[string]int64       `json:"rejected_msgs,omitempty"`
	SimSteps       int64                  `json:"sim_steps"`
	CompilerTicks  int64                  `json:"compiler_ticks"`
	BudgetRuns     int64                  `json:"budget_runs"`
	InnerPrograms  int64                  `json:"inner_exhaustive_programs"`
	InnerAssign    int64                  `json:"inner_exhaustive_assignments"`
	Faults         map[string]*FaultCount `json:"faults,omitempty"`
	Probes         map[string]int64       `json:"probes,omitempty"`
	Finish         map[string]int64       `json:"finish_kinds,omitempty"`
	MaxTicksRatio  float64                `json:"max_ticks_per_budget"`
	MaxDepthRatio  float64                `json:"max_depth_per_budget"`
	MaxOutRatio    float64                `json:"max_outlen_per_budget"`
	Unordered      int64                  `json:"unordered_map_visits"`
	TranspChecked  int64                  `json:"plain_vs_instrumented_checked"`
	CLIChecked     int64                  `json:"cli_front_end_checked"`
	Replayed       int64                  `json:"selfcheck_replayed"`
	DigestMismatch int64                  `json:"selfcheck_digest_mismatches"`
	KnownSeen      map[string]int64       `json:"known_findings_seen,omitempty"`
	Samples        []json.RawMessage      `json:"samples,omitempty"`
	PerRun         []string               `json:"per_run,omitempty"`
	Digest         string                 `json:"digest,omitempty"` // rolling digest of all per-run digests (determinism self-test)
}

type FaultCount struct {
	Configured int64 `json:"configured"`
	Fired      int64 `json:"fired"`
	Effective  int64 `json:"effective"`
}

func NewStats() *Stats {
	return &Stats{RejectedMsgs: map[string]int64{}, Faults: map[string]*FaultCount{}, Probes: map[string]int64{}, Finish: map[string]int64{}, KnownSeen: map[string]int64{}}
}

func (s *Stats) Fault(kind string) *FaultCount {
	f := s.Faults[kind]
	if f == nil {
		f = &FaultCount{}
		s.Faults[kind] = f
	}
	return f
}

func (s *Stats) Merge(o *Stats) {
	s.Runs += o.Runs
	s.Evaluations += o.Evaluations
	s.Programs += o.Programs
	s.Rejected += o.Rejected
	s.SimSteps += o.SimSteps
	s.CompilerTicks += o.CompilerTicks
	s.BudgetRuns += o.BudgetRuns
	s.InnerPrograms += o.InnerPrograms
	s.InnerAssign += o.InnerAssign
	s.Unordered += o.Unordered
	s.TranspChecked += o.TranspChecked
	s.CLIChecked += o.CLIChecked
	s.Replayed += o.Replayed
	s.DigestMismatch += o.DigestMismatch
	if o.MaxTicksRatio > s.MaxTicksRatio {
		s.MaxTicksRatio = o.MaxTicksRatio
	}
	if o.MaxDepthRatio > s.MaxDepthRatio {
		s.MaxDepthRatio = o.MaxDepthRatio
	}
	if o.MaxOutRatio > s.MaxOutRatio {
		s.MaxOutRatio = o.MaxOutRatio
	}
	for k, v := range o.RejectedMsgs {
		s.RejectedMsgs[k] += v
	}
	for k, v := range o.Probes {
		s.Probes[k] += v
	}
	for k, v := range o.Finish {
		s.Finish[k] += v
	}
	for k, v := range o.KnownSeen {
		s.KnownSeen[k] += v
	}
	for k, v := range o.Faults {
		f := s.Fault(k)
		f.Configured += v.Configured
		f.Fired += v.Fired
		f.Effective += v.Effective
	}
	if len(s.Samples) < 6 {
		for _, x := range o.Samples {
			if len(s.Samples) < 6 {
				s.Samples = append(s.Samples, x)
			}
		}
	}
}

// Replay is the concrete, generator-independent description of one failing execution.
type Replay struct {
	Version       int    `json:"version"`
	Engine        string `json:"engine"`
	Property      string `json:"property"`
	Oracle        string `json:"oracle"`
	VerifSeed     uint64 `json:"verif_seed"`
	Run           uint64 `json:"run"`
	RunSeed       uint64 `json:"run_seed"`
	Detail        string `json:"detail"`
	MinimizeEvals int    `json:"minimize_evaluations"`

	// cosim
	Source   string         `json:"source,omitempty"`
	Model    *model.File    `json:"model,omitempty"`
	Options  *comp.Options  `json:"options,omitempty"`
	Options2 *comp.Options  `json:"options_b,omitempty"` // C05 lock-step: the other image
	Entry    string         `json:"entry,omitempty"`
	Env      *env.Env       `json:"env,omitempty"`
	EnvTable map[string]int `json:"env_table,omitempty"`
	Expected *trace.Trace   `json:"expected,omitempty"`
	Actual   *trace.Trace   `json:"actual,omitempty"`
	Output   string         `json:"emitted,omitempty"`

	// C05 lock-step on a full-feature file (no model): the simulated disk content
	FullFiles map[string]string `json:"full_files,omitempty"`

	// hist
	History *HistReplay `json:"history,omitempty"`
	// fault
	Fault *FaultReplay `json:"fault,omitempty"`

	// Worker is the position of the run inside its worker process: the runs the same process
	// executed before it are From, From+Stride, ... - needed only when a failure depends on
	// state the tree keeps across compilations (replay falls back to re-executing them).
	Worker *WorkerPos `json:"worker,omitempty"`
}

// WorkerPos locates a run in the deterministic sequence of its worker process.
type WorkerPos struct {
	Tier    string `json:"tier"`
	From    uint64 `json:"from"`
	Stride  uint64 `json:"stride"`
	Run     uint64 `json:"run_index"`
	MaxFail int    `json:"max_fail"`
}

// curWorker / curRun are set by the worker loops (one run at a time per process).
var (
	curWorker *Params
	curRun    uint64
)

func beginRun(pm *Params, i uint64) { curWorker, curRun = pm, i }

// HistoryReplay re-executes the run of r together with every run its worker process executed
// before it, in a fresh process, and reports whether the same oracle fails for the same run.
func HistoryReplay(r *Replay, self string, worker func(*Params) (*Stats, []*Failure)) (string, string) {
	if r.Worker == nil || r.Worker.Stride == 0 {
		return "", ""
	}
	dir, err := os.MkdirTemp("", "verifsim-history-replay")
	if err != nil {
		return "", ""
	}
	defer os.RemoveAll(dir)
	pm := &Params{Property: r.Property, Tier: r.Worker.Tier, VerifSeed: r.VerifSeed, From: r.Worker.From, Stride: r.Worker.Stride, Count: r.Worker.Run + 1,
		ReplayDir: dir, MaxFail: r.Worker.MaxFail, Thorough: r.Worker.Tier == "thorough", SelfExe: self}
	_, fails := worker(pm)
	for _, f := range fails {
		if f.Replay != nil && f.Replay.RunSeed == r.RunSeed && f.Oracle == r.Oracle {
			return f.Oracle, f.Detail + fmt.Sprintf(" (reproduced together with the %d runs the same worker process executed before it)", (r.Worker.Run-r.Worker.From)/r.Worker.Stride)
		}
	}
	return "", ""
}

// Failure is one violation found by a worker.
type Failure struct {
	Property string  `json:"property"`
	Oracle   string  `json:"oracle"`
	Detail   string  `json:"detail"`
	Path     string  `json:"replay_path"`
	Known    string  `json:"known_finding,omitempty"`
	Replay   *Replay `json:"-"`
}

// WriteReplay stores the replay file and returns its path.
func WriteReplay(dir string, r *Replay) (string, error) {
	if curWorker != nil && r.Worker == nil {
		r.Worker = &WorkerPos{Tier: curWorker.Tier, From: curWorker.From, Stride: curWorker.Stride, Run: curRun, MaxFail: curWorker.MaxFail}
	}
	if err := os.MkdirAll(dir, 0o755); err != nil {
		return "", err
	}
	p := filepath.Join(dir, fmt.Sprintf("%s-%d-%d.json", r.Property, r.VerifSeed, r.Run))
	b, err := json.MarshalIndent(r, "", " ")
	if err != nil {
		return "", err
	}
	return p, os.WriteFile(p, b, 0o644)
}

func ReadReplay(path string) (*Replay, error) {
	b, err := os.ReadFile(path)
	if err != nil {
		return nil, err
	}
	var r Replay
	if err := json.Unmarshal(b, &r); err != nil {
		return nil, err
	}
	comp.SchedSeed = rng.Sub(r.RunSeed, "sched") // same seeded yields as in the recorded run
	return &r, nil
}

// Digest is a rolling sha256 over per-run event logs, for the determinism self-test.
type Digest struct{ h [32]byte }

func (d *Digest) Add(s string) {
	x := sha256.Sum256(append(d.h[:], s...))
	d.h = x
}

func (d *Digest) Hex() string { return hex.EncodeToString(d.h[:8]) }

// SortedKeys helper.
func SortedKeys[V any](m map[string]V) []string {
	ks := make([]string, 0, len(m))
	for k := range m {
		ks = append(ks, k)
	}
	sort.Strings(ks)
	return ks
}

// Params of one worker invocation.
type Params struct {
	Property    string
	Tier        string
	VerifSeed   uint64
	From        uint64 // first run index
	Stride      uint64
	Count       uint64 // number of run indices this campaign covers in total (indices < Count)
	ReplayDir   string
	MaxFail     int
	Thorough    bool
	DistinctOut string // file receiving the distinct-case hashes
	TranspOut   string // file receiving the transparency samples
	DigestOnly  bool
	Known       *KnownFindings
	SelfExe     string
	PerRun      bool // keep one digest line per run (determinism self-test)
}

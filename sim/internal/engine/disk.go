package engine

import (
	"errors"
	"fmt"
	"os"

	"github.com/huderlem/poryscript/simhook"
)

// Disk is the simulated file system behind simhook.ReadFile: in-memory files plus a
// per-run fault plan.
type Disk struct {
	Files map[string][]byte `json:"files"`
	Fault DiskFault         `json:"fault"`
	Reads int               `json:"-"`
	Fired int               `json:"-"`
}

type DiskFault struct {
	Kind   string `json:"kind,omitempty"` // "", enoent, eio, empty, torn, flip
	Offset int    `json:"offset,omitempty"`
}

func (d *Disk) read(path string) ([]byte, error) {
	d.Reads++
	b, ok := d.Files[path]
	if !ok {
		return nil, &os.PathError{Op: "open", Path: path, Err: os.ErrNotExist}
	}
	switch d.Fault.Kind {
	case "":
		return append([]byte(nil), b...), nil
	case "enoent":
		d.Fired++
		return nil, &os.PathError{Op: "open", Path: path, Err: os.ErrNotExist}
	case "eio":
		d.Fired++
		return nil, &os.PathError{Op: "read", Path: path, Err: errors.New("input/output error")}
	case "empty":
		d.Fired++
		return []byte{}, nil
	case "torn":
		d.Fired++
		o := d.Fault.Offset
		if o > len(b) {
			o = len(b)
		}
		return append([]byte(nil), b[:o]...), nil
	case "flip":
		d.Fired++
		c := append([]byte(nil), b...)
		if len(c) > 0 {
			c[d.Fault.Offset%len(c)] ^= 0x5a
		}
		return c, nil
	}
	return nil, fmt.Errorf("simulated disk: unknown fault kind %q", d.Fault.Kind)
}

// Mount installs the disk behind the seam (nil restores the real file system).
func Mount(d *Disk) {
	if d == nil {
		simhook.ReadFileFn = nil
		return
	}
	simhook.ReadFileFn = d.read
}

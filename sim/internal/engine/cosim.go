package engine

import (
	"encoding/binary"
	"encoding/json"
	"fmt"
	"os"
	"sort"
	"strings"
	"time"
	"unicode/utf8"

	"verifsim/internal/comp"
	"verifsim/internal/env"
	"verifsim/internal/filegen"
	"verifsim/internal/gen"
	"verifsim/internal/model"
	"verifsim/internal/ref"
	"verifsim/internal/rng"
	"verifsim/internal/shrink"
	"verifsim/internal/trace"
	"verifsim/internal/vm"
)

var refLim = ref.Limits{Steps: 50000, Events: 400, Stack: 20}
var vmLim = vm.Limits{Steps: 50000, Events: 400, Stack: 20}

// compile limits for generated (well-formed, small) programs: generous, a trip is a C18 matter.
var cosimCompLim = comp.Limits{Ticks: 50_000_000, Depth: 100_000}

type cosimFail struct {
	oracle string
	detail string
	opt    comp.Options
	opt2   *comp.Options
	entry  string
	env    env.Env
	want   *trace.Trace
	got    *trace.Trace
	out    string
}

func cosimOptions(f *model.File, optimize, lm bool) comp.Options {
	o := comp.Options{Optimize: optimize, LineMarkers: lm}
	if lm {
		o.Path = "prog.pory"
	}
	if f.Switches != nil {
		o.Switches = map[string]string{}
		for k, v := range f.Switches {
			o.Switches[k] = v
		}
	}
	if f.AutoVars != nil {
		o.AutoVars = map[string]comp.AutoVar{}
		for k, v := range f.AutoVars {
			av := comp.AutoVar{VarName: v.VarName}
			if v.ArgPos >= 0 {
				p := v.ArgPos
				av.ArgPos = &p
			}
			o.AutoVars[k] = av
		}
	}
	return o
}

func topsOf(f *model.File) map[string]bool {
	t := map[string]bool{}
	for _, e := range f.Entries() {
		t[e.Name] = true
	}
	if m := f.MapScripts; m != nil {
		t[m.Name] = true
		for _, e := range m.Entries {
			if e.IsTable {
				t[m.Name+"_"+e.Type] = true
			}
		}
	}
	return t
}

// isGenerated reports whether l has the shape <entry>_<n> of a compiler-generated sub-label.
func isGenerated(l string, entries map[string]bool) bool {
	i := strings.LastIndexByte(l, '_')
	if i <= 0 || i == len(l)-1 {
		return false
	}
	for _, c := range l[i+1:] {
		if c < '0' || c > '9' {
			return false
		}
	}
	return entries[l[:i]]
}

type envPlan struct {
	envs       []env.Env
	exhaustive bool
}

// atoms of the conditions of a file, for the exhaustive inner loops.
type atomSet struct {
	bools     []string // "flag:X" / "trainer:X"
	vars      []string // "var:X"
	seenB     map[string]bool
	seenV     map[string]bool
	swVar     map[string]bool
	maxLeaves int
}

func (a *atomSet) addB(k string) {
	if !a.seenB[k] {
		a.seenB[k] = true
		a.bools = append(a.bools, k)
	}
}
func (a *atomSet) addV(k string) {
	k = "var:" + env.Canon(k)
	if !a.seenV[k] {
		a.seenV[k] = true
		a.vars = append(a.vars, k)
	}
}

func autoName(f *model.File, c *model.Cmd) string {
	av := f.AutoVars[c.Name]
	if av.ArgPos >= 0 && av.ArgPos < len(c.Args) {
		return f.Sub(ref.PlainArg(&c.Args[av.ArgPos]))
	}
	return av.VarName
}

func (a *atomSet) expr(f *model.File, e *model.Expr) int {
	switch e.Op {
	case model.OLeaf:
		l := e.Leaf
		switch l.Kind {
		case model.LFlag:
			a.addB("flag:" + env.Canon(f.Sub(l.Name)))
		case model.LDefeated:
			a.addB("trainer:" + env.Canon(f.Sub(l.Name)))
		case model.LVar:
			a.addV(f.Sub(l.Name))
		case model.LAuto:
			a.addV(autoName(f, l.Auto))
		}
		if l.Form == model.FOp && !l.Strict && env.IsVarRef(env.Canon(f.Sub(l.Val))) {
			a.addV(f.Sub(l.Val))
		}
		return 1
	case model.ONot:
		return a.expr(f, e.L)
	}
	return a.expr(f, e.L) + a.expr(f, e.R)
}

func (a *atomSet) block(f *model.File, b []*model.Stmt) {
	for _, s := range b {
		switch s.K {
		case model.KIf:
			for i, c := range s.Conds {
				if n := a.expr(f, c); n > a.maxLeaves {
					a.maxLeaves = n
				}
				a.block(f, s.Bodies[i])
			}
			a.block(f, s.Else)
		case model.KWhile, model.KDoWhile:
			if s.Cond != nil {
				if n := a.expr(f, s.Cond); n > a.maxLeaves {
					a.maxLeaves = n
				}
			}
			a.block(f, s.Body)
		case model.KPory:
			for _, c := range s.PCases {
				a.block(f, c.Body)
			}
		case model.KSwitch:
			name := f.Sub(s.Sw.Var)
			if s.Sw.Auto != nil {
				name = autoName(f, s.Sw.Auto)
			}
			a.swVar["var:"+env.Canon(name)] = true
			for _, c := range s.Sw.Cases {
				a.block(f, c.Body)
			}
		}
	}
}

func atomsOf(f *model.File) *atomSet {
	a := &atomSet{seenB: map[string]bool{}, seenV: map[string]bool{}, swVar: map[string]bool{}}
	for _, e := range f.Entries() {
		a.block(f, e.Body)
	}
	return a
}

// planEnvs builds the environments one program is run under.
func planEnvs(prop string, f *model.File, runSeed uint64, dom int, vals []int, thorough, heavy bool) envPlan {
	r := rng.New(rng.Sub(runSeed, "env"))
	biases := []float64{0.2, 0.5, 0.8}
	base := func(i int) env.Env {
		return env.Env{Seed: rng.H(runSeed, 0xe17, uint64(i)), Bias: biases[r.Intn(3)], Dom: dom, Vals: vals}
	}
	var p envPlan
	k := 6
	if thorough {
		k = 10
	}
	for i := 0; i < k; i++ {
		p.envs = append(p.envs, base(i))
	}
	limit := 512
	if thorough {
		limit = 4096
	}
	if heavy {
		// big / stress-shaped programs: every execution is long, so fewer of them
		limit = 96
		if thorough {
			limit = 384
		}
	}
	switch prop {
	case "C02":
		a := atomsOf(f)
		nb, nv := len(a.bools), len(a.vars)
		total := 1
		for i := 0; i < nb && total <= limit; i++ {
			total *= 2
		}
		vdom := dom
		if len(vals) > 0 {
			vdom = len(vals)
		}
		valOf := func(i int) int {
			if len(vals) > 0 {
				return vals[i]
			}
			return i
		}
		for i := 0; i < nv && total <= limit; i++ {
			total *= vdom
		}
		if total <= limit {
			p.exhaustive = true
			for x := 0; x < total; x++ {
				e := base(1000 + x)
				e.Overlay0 = map[string]int{}
				y := x
				for _, b := range a.bools {
					e.Overlay0[b] = y & 1
					y >>= 1
				}
				for _, v := range a.vars {
					e.Overlay0[v] = valOf(y % vdom)
					y /= vdom
				}
				p.envs = append(p.envs, e)
			}
		} else {
			for x := 0; x < limit; x++ {
				e := base(1000 + x)
				e.Overlay0 = map[string]int{}
				for _, b := range a.bools {
					e.Overlay0[b] = r.Intn(2)
				}
				for _, v := range a.vars {
					e.Overlay0[v] = valOf(r.Intn(vdom))
				}
				p.envs = append(p.envs, e)
			}
		}
	case "C03":
		a := atomsOf(f)
		var sv []string
		for k := range a.swVar {
			sv = append(sv, k)
		}
		sort.Strings(sv)
		nval := dom + 4 // case literals range over 0..dom+2, plus one value nothing uses
		stickyVal := func(i int) int { return i }
		if len(vals) > 0 {
			nval = len(vals) + 3
			stickyVal = func(i int) int {
				if i < len(vals) {
					return vals[i]
				}
				return 100000 + i // the unused case literals of the big-number alphabet, and one beyond
			}
		}
		total := 1
		for i := 0; i < len(sv) && total <= limit; i++ {
			total *= nval
		}
		if len(sv) > 0 && total <= limit {
			p.exhaustive = true
			for x := 0; x < total; x++ {
				e := base(1000 + x)
				e.Sticky = map[string]int{}
				y := x
				for _, v := range sv {
					e.Sticky[v] = stickyVal(y % nval)
					y /= nval
				}
				p.envs = append(p.envs, e)
			}
		}
	}
	return p
}

type cosimProgram struct {
	f   *model.File
	src string
	lm  bool
	// stdin: line markers requested (lm) but no input path, as when the front end reads stdin
	stdin bool
	tops  map[string]bool
	ents  []model.Entry
}

type cosimCounters struct {
	evals     int64
	steps     int64
	ticks     int64
	budget    int64
	rejected  string
	distinct  []uint64
	finish    map[string]int64
	probes    map[string]int
	digest    *Digest
	unordered int64
	// the one fault kind of the co-simulation: the game state is re-drawn after every command
	redraws       int64
	lateDecisions int64
	cliChecked    int64
}

// transp is the worker's transparency-sample logger (nil = off).
var transp *transpLogger

// forceCLI makes every evaluation go through the front end (replay / minimisation of a cli-differs failure).
var forceCLI bool

func compileFor(p *cosimProgram, optimize, lm bool) (comp.Options, comp.Result) {
	o := cosimOptions(p.f, optimize, lm)
	if p.stdin {
		o.Path = "" // the front end's stdin mode: -lm is on by default, but there is no file name to put in a marker
	}
	res := comp.Compile(p.src, &o, cosimCompLim, nil)
	transp.maybe(p.src, &o, &res)
	return o, res
}

// cosimEval runs the oracle of prop on one program under the planned environments.
// It returns the first failure (nil if none).
func cosimEval(prop string, p *cosimProgram, plan *envPlan, cc *cosimCounters, onlyEntry string) *cosimFail {
	optA, resA := compileFor(p, false, p.lm)
	optB, resB := compileFor(p, true, p.lm)
	if cc != nil {
		cc.ticks += resA.Ticks + resB.Ticks
	}
	bad := func(r *comp.Result) string {
		switch {
		case r.Panic != "":
			return "panic: " + r.Panic
		case r.Budget != "":
			return "budget: " + r.Budget
		case r.Err != nil:
			return "error: " + r.Err.Msg
		}
		return ""
	}
	ba, bb := bad(&resA), bad(&resB)
	if ba != "" || bb != "" {
		if (ba == "") != (bb == "") {
			return &cosimFail{oracle: "accept-differs", detail: fmt.Sprintf("optimize=false: %q, optimize=true: %q", ba, bb), opt: optA, opt2: &optB}
		}
		if cc != nil {
			cc.rejected = ba
		}
		return nil
	}
	if cc != nil && cc.digest != nil {
		cc.digest.Add(resA.Out)
		cc.digest.Add(resB.Out)
	}
	// a sample of the programs also goes through the command-line front end
	if cli != nil && (forceCLI || rng.HashStr(p.src)%40 == 0) {
		o, res := optA, resA
		if rng.HashStr(p.src)%80 == 0 {
			o, res = optB, resB
		}
		if d := cliCheck(p.src, &o, &res, nil); d != "" {
			return &cosimFail{oracle: "cli-differs", detail: d, opt: o, out: res.Out}
		}
		if cc != nil {
			cc.cliChecked++
		}
	}
	imA := vm.Load(resA.Out)
	imB := vm.Load(resB.Out)
	entries := map[string]bool{}
	for _, e := range p.ents {
		entries[e.Name] = true
	}
	if prop == "C05" {
		if f := c05Static(p, imA, imB, &optA, &optB, resA.Out, resB.Out, entries); f != nil {
			return f
		}
	}
	var prog *ref.Program
	if prop != "C05" {
		prog = ref.Link(p.f)
	}
	srcHash := rng.HashStr(p.src)
	for ei, ent := range p.ents {
		if onlyEntry != "" && ent.Name != onlyEntry {
			continue
		}
		for xi := range plan.envs {
			e := plan.envs[xi]
			if prop == "C05" {
				ta := vm.Run(imA, ent.Name, &e, p.tops, vmLim, nil)
				tb := vm.Run(imB, ent.Name, &e, p.tops, vmLim, nil)
				if cc != nil {
					cc.evals++
					cc.steps += int64(ta.Steps + tb.Steps)
					cc.finish[finishKind(ta.Finish)]++
					if ta.Budget() || tb.Budget() {
						cc.budget++
					}
					if ta.Decisions >= 1 && len(ta.Events) >= 1 {
						cc.distinct = append(cc.distinct, rng.H(srcHash, uint64(ei), ta.Path))
					}
					if cc.digest != nil {
						cc.digest.Add(ta.String())
						cc.digest.Add(tb.String())
					}
				}
				if strings.HasPrefix(ta.Finish, "fault:") {
					return &cosimFail{oracle: "vm-invariant", detail: "optimize=false image: " + ta.Finish, opt: optA, entry: ent.Name, env: e, got: ta, out: resA.Out}
				}
				if strings.HasPrefix(tb.Finish, "fault:") {
					return &cosimFail{oracle: "vm-invariant", detail: "optimize=true image: " + tb.Finish, opt: optB, entry: ent.Name, env: e, got: tb, out: resB.Out}
				}
				if d := trace.Diff(ta, tb); d != "" {
					return &cosimFail{oracle: "lockstep", detail: "optimize=true vs optimize=false: " + d, opt: optA, opt2: &optB, entry: ent.Name, env: e, want: ta, got: tb, out: resB.Out}
				}
				continue
			}
			var probes map[string]int
			if cc != nil {
				probes = cc.probes
			}
			want := prog.Run(ent.Name, &e, refLim, probes)
			for k := 0; k < 2; k++ {
				im, o, out := imA, optA, resA.Out
				if k == 1 {
					im, o, out = imB, optB, resB.Out
				}
				got := vm.Run(im, ent.Name, &e, p.tops, vmLim, nil)
				if cc != nil {
					cc.evals++
					cc.steps += int64(got.Steps + want.Steps)
					if got.Budget() || want.Budget() {
						cc.budget++
					}
					if cc.digest != nil {
						cc.digest.Add(got.String())
					}
				}
				if strings.HasPrefix(got.Finish, "fault:") {
					return &cosimFail{oracle: "vm-invariant", detail: got.Finish, opt: o, entry: ent.Name, env: e, want: want, got: got, out: out}
				}
				if d := trace.Diff(want, got); d != "" {
					return &cosimFail{oracle: "trace", detail: d, opt: o, entry: ent.Name, env: e, want: want, got: got, out: out}
				}
			}
			if cc != nil {
				cc.redraws += int64(len(want.Events))
				cc.lateDecisions += int64(want.LateDecisions)
				cc.finish[finishKind(want.Finish)]++
				if cc.digest != nil {
					cc.digest.Add(want.String())
				}
				if nontrivial(prop, want) {
					cc.distinct = append(cc.distinct, rng.H(srcHash, uint64(ei), want.Path))
				}
			}
		}
	}
	return nil
}

func finishKind(f string) string {
	if strings.HasPrefix(f, "exit(") {
		return "exit"
	}
	if strings.HasPrefix(f, "fault") {
		return "fault"
	}
	return f
}

func nontrivial(prop string, t *trace.Trace) bool {
	switch prop {
	case "C02":
		return t.Decisions >= 2
	case "C03":
		return t.Decisions >= 1 && len(t.Events) >= 1
	}
	return t.Decisions >= 1 && len(t.Events) >= 1
}

// c05Static: the hosted load-time invariants of C05 (textual clauses; DESIGN.md 4.8).
func c05Static(p *cosimProgram, a, b *vm.Image, oa, ob *comp.Options, outA, outB string, entries map[string]bool) *cosimFail {
	for k, im := range []*vm.Image{a, b} {
		o, out := oa, outA
		if k == 1 {
			o, out = ob, outB
		}
		refd := map[string]bool{}
		for _, in := range im.Instrs {
			for _, x := range in.Args {
				refd[x] = true
			}
		}
		for i, in := range im.Instrs {
			if in.Name == "goto" && len(in.Args) == 1 && isGenerated(in.Args[0], entries) {
				for _, l := range im.LabelAt[i+1] {
					if l == in.Args[0] {
						return &cosimFail{oracle: "redundant-goto", detail: fmt.Sprintf("optimize=%v: generated 'goto %s' (line %d) targets the label on the next line", o.Optimize, l, in.Line), opt: *o, out: out}
					}
				}
			}
		}
		for _, l := range im.Order {
			if isGenerated(l, entries) && !refd[l] {
				return &cosimFail{oracle: "unreferenced-label", detail: fmt.Sprintf("optimize=%v: generated sub-label %s is defined but nothing refers to it", o.Optimize, l), opt: *o, out: out}
			}
		}
	}
	ua, ub := userLabels(a, entries), userLabels(b, entries)
	if ua != ub {
		return &cosimFail{oracle: "labels-differ", detail: fmt.Sprintf("user-visible labels differ: optimize=false %s ; optimize=true %s", ua, ub), opt: *oa, opt2: ob, out: outB}
	}
	ha, hb := hoisted(a), hoisted(b)
	if ha != hb {
		return &cosimFail{oracle: "hoisted-differ", detail: fmt.Sprintf("hoisted data differ: optimize=false %s ; optimize=true %s", ha, hb), opt: *oa, opt2: ob, out: outB}
	}
	return nil
}

func userLabels(im *vm.Image, entries map[string]bool) string {
	var ls []string
	for _, l := range im.Order {
		if !isGenerated(l, entries) {
			s := l + ":"
			if im.Global[l] {
				s += ":"
			}
			ls = append(ls, s)
		}
	}
	sort.Strings(ls)
	return strings.Join(ls, " ")
}

func hoisted(im *vm.Image) string {
	var ls []string
	for l, c := range im.Content {
		ls = append(ls, l+"="+c)
	}
	sort.Strings(ls)
	return strings.Join(ls, " ")
}

// ---------------------------------------------------------------------------------

// buildProgram renders a model into a cosimProgram.
func buildProgram(f *model.File, style int, layoutSeed uint64, lm bool) *cosimProgram {
	lr := rng.New(layoutSeed)
	src := model.Layout(f.Tokens(), style, lr.U64)
	return &cosimProgram{f: f, src: src, lm: lm, tops: topsOf(f), ents: f.Entries()}
}

// CosimWorker runs the co-simulation campaign slice of one worker.
func CosimWorker(pm *Params) (*Stats, []*Failure) {
	st := NewStats()
	var fails []*Failure
	cc := &cosimCounters{finish: map[string]int64{}, probes: map[string]int{}, digest: &Digest{}}
	prop := pm.Property
	total := &Digest{}
	transp = newTranspLogger(pm.TranspOut)
	defer func() { transp.close(); transp = nil }()
	cli = newCLI(pm.DistinctOut)
	defer func() { cli.close(); cli = nil }()
	for i := pm.From; i < pm.Count; i += pm.Stride {
		runSeed := rng.RunSeed(pm.VerifSeed, prop, i)
		beginRun(pm, i)
		comp.SchedSeed = rng.Sub(runSeed, "sched")
		gr := rng.New(rng.Sub(runSeed, "gen"))
		if prop == "C05" && i%4 == 3 {
			// every fourth C05 run: a full-feature file (poryswitch, const, format, raw, ...)
			cc.digest = &Digest{}
			fl := c05FullRun(pm, i, runSeed, gr, cc, st)
			st.Runs++
			st.Programs++
			total.Add(cc.digest.Hex())
			if pm.PerRun {
				st.PerRun = append(st.PerRun, fmt.Sprintf("%d %s", i, cc.digest.Hex()))
			}
			if fl != nil {
				fails = append(fails, fl)
				if len(fails) >= pm.MaxFail {
					break
				}
			}
			continue
		}
		cfg := gen.DrawConfig(gr, gen.Profile(prop), pm.Thorough)
		var f *model.File
		if i%64 == 17 {
			// stress shapes (thresholds random growth rarely reaches)
			f = gen.StressFile(gr, cfg)
		} else {
			f = gen.File(gr, cfg)
		}
		or := rng.New(rng.Sub(runSeed, "options"))
		style := []int{0, 0, 2, 2, 3, 4}[or.Intn(6)]
		lm := or.Bool()
		layoutSeed := rng.Sub(runSeed, "layout")
		p := buildProgram(f, style, layoutSeed, lm)
		p.stdin = lm && or.Fork("stdin").P(0.3)
		plan := planEnvs(prop, f, runSeed, cfg.Dom, cfg.Vals, pm.Thorough, cfg.Big || i%64 == 17)
		if cfg.DriveDeep {
			// game states that walk down a deep nest: most flags set, switched vars mostly 1
			for k := 0; k < 8; k++ {
				plan.envs = append(plan.envs, env.Env{Seed: rng.H(runSeed, 0xdee9, uint64(k)), Bias: []float64{0.85, 0.93, 0.97}[k%3], Dom: 2, Vals: [][]int{{1}, {1, 1, 1, 2}, {1, 1, 0}}[k%3]})
			}
		}
		cc.rejected = ""
		cc.digest = &Digest{}
		before := cc.evals
		t0 := time.Now()
		fail := cosimEval(prop, p, &plan, cc, "")
		if d := time.Since(t0); d > 20*time.Second {
			// diagnostics only (never part of a verdict): a single run that takes this long
			fmt.Fprintf(os.Stderr, "SLOW: property=%s run=%d took %.0fs (%d bytes of source, %d environments, %d entries)\n", prop, i, d.Seconds(), len(p.src), len(plan.envs), len(p.ents))
		}
		st.Runs++
		st.Programs++
		total.Add(cc.digest.Hex())
		if pm.PerRun {
			st.PerRun = append(st.PerRun, fmt.Sprintf("%d %s", i, cc.digest.Hex()))
		}
		if plan.exhaustive {
			st.InnerPrograms++
			st.InnerAssign += cc.evals - before
		}
		if cc.rejected != "" {
			st.Rejected++
			st.RejectedMsgs[cc.rejected]++
		}
		if len(st.Samples) < 2 && fail == nil && cc.rejected == "" {
			smp := map[string]interface{}{"run": i, "source": p.src, "entries": len(p.ents), "environments": len(plan.envs), "exhaustive_inner": plan.exhaustive}
			if len(p.ents) > 0 && prop != "C05" {
				e := plan.envs[0]
				e.Log = map[string]int{}
				t := ref.Link(f).Run(p.ents[0].Name, &e, refLim, nil)
				smp["entry"] = p.ents[0].Name
				smp["trace"] = t.String()
				smp["env_table"] = e.Log
			}
			b, _ := json.Marshal(smp)
			st.Samples = append(st.Samples, b)
		}
		if fail != nil {
			fl := cosimReport(pm, i, runSeed, p, &plan, fail, style, layoutSeed)
			if fl.Known != "" {
				st.KnownSeen[fl.Known]++
			} else {
				fails = append(fails, fl)
				if len(fails) >= pm.MaxFail {
					break
				}
			}
		}
	}
	st.Evaluations = cc.evals
	st.CLIChecked = cc.cliChecked
	if cc.redraws > 0 {
		fc := st.Fault("game_state_redrawn_after_command")
		fc.Configured, fc.Fired, fc.Effective = cc.redraws, cc.redraws, cc.lateDecisions
	}
	st.SimSteps = cc.steps
	st.CompilerTicks = cc.ticks
	st.BudgetRuns = cc.budget
	for k, v := range cc.finish {
		st.Finish[k] += v
	}
	for k, v := range cc.probes {
		st.Probes[k] += int64(v)
	}
	st.Digest = total.Hex()
	if pm.DistinctOut != "" {
		writeHashes(pm.DistinctOut, cc.distinct)
	}
	return st, fails
}

func writeHashes(path string, hs []uint64) {
	b := make([]byte, 8*len(hs))
	for i, h := range hs {
		binary.LittleEndian.PutUint64(b[8*i:], h)
	}
	_ = os.WriteFile(path, b, 0o644)
}

// cosimReport minimises a failing program and writes its replay file.
func cosimReport(pm *Params, run, runSeed uint64, p *cosimProgram, plan *envPlan, fail *cosimFail, style int, layoutSeed uint64) *Failure {
	prop := pm.Property
	oracle := fail.oracle
	// narrow the plan to the failing environment (static oracles have none)
	narrow := &envPlan{}
	if fail.entry != "" {
		narrow.envs = []env.Env{fail.env}
	} else {
		narrow.envs = plan.envs[:1]
	}
	best := p
	bestFail := fail
	evals := 0
	if oracle == "cli-differs" {
		forceCLI = true
		defer func() { forceCLI = false }()
	}
	try := func(f *model.File, st int) *cosimFail {
		q := buildProgram(f, st, layoutSeed, p.lm)
		q.stdin = p.stdin
		ff := cosimEval(prop, q, narrow, nil, "")
		if ff != nil && ff.oracle == oracle {
			best, bestFail = q, ff
			return ff
		}
		return nil
	}
	// prefer the canonical layout if the failure survives it
	minStyle := style
	if style != 0 {
		evals++
		if try(p.f, 0) != nil {
			minStyle = 0
		}
	}
	budget := 3000
	if strings.Contains(fail.detail, "budget:") {
		budget = 40 // every evaluation of a compiler that runs to its progress budget costs that whole budget
	}
	minimal, used := shrink.Minimize(best.f, func(f *model.File) bool { return try(f, minStyle) != nil }, budget)
	evals += used
	_ = minimal
	// simplify the environment: try the all-false / zero environment, then bias extremes
	if bestFail.entry != "" {
		for _, cand := range []env.Env{
			{Seed: bestFail.env.Seed, Bias: 0, Dom: 1},
			{Seed: bestFail.env.Seed, Bias: 1, Dom: 1},
			{Seed: bestFail.env.Seed, Bias: 0, Dom: bestFail.env.Dom},
			{Seed: bestFail.env.Seed, Bias: 1, Dom: bestFail.env.Dom},
		} {
			evals++
			q := best
			ff := cosimEval(prop, q, &envPlan{envs: []env.Env{cand}}, nil, bestFail.entry)
			if ff != nil && ff.oracle == oracle {
				bestFail = ff
				break
			}
		}
	}
	r := &Replay{Version: 1, Engine: "cosim", Property: prop, Oracle: oracle, VerifSeed: pm.VerifSeed, Run: run, RunSeed: runSeed,
		Detail: bestFail.detail, MinimizeEvals: evals, Source: best.src, Model: best.f, Entry: bestFail.entry, Expected: bestFail.want, Actual: bestFail.got, Output: bestFail.out}
	o := bestFail.opt
	r.Options = &o
	r.Options2 = bestFail.opt2
	if bestFail.entry != "" {
		e := bestFail.env
		r.Env = &e
		// record the consulted answers (readability; replay recomputes them from Env)
		el := bestFail.env
		el.Log = map[string]int{}
		if prop != "C05" {
			ref.Link(best.f).Run(bestFail.entry, &el, refLim, nil)
		}
		r.EnvTable = el.Log
	}
	fl := &Failure{Property: prop, Oracle: oracle, Detail: bestFail.detail, Replay: r}
	if id := pm.Known.Attribute(r); id != "" {
		fl.Known = id
		return fl
	}
	path, err := WriteReplay(pm.ReplayDir, r)
	if err != nil {
		fl.Detail += " (could not write replay: " + err.Error() + ")"
	}
	fl.Path = path
	return fl
}

// CosimReplay re-executes a replay file against the current compiler. It returns the
// failure it reproduces ("" oracle = not reproduced).
func CosimReplay(r *Replay) (string, string) {
	if r.Model == nil && r.FullFiles != nil && r.Options != nil && r.Options2 != nil {
		var envs []env.Env
		if r.Env != nil {
			envs = []env.Env{*r.Env}
		} else {
			envs = []env.Env{{Seed: 1, Bias: 0.5, Dom: 4}}
		}
		or, detail, _, _, _, _, _ := c05FullEval(r.Source, r.Options, r.Options2, r.FullFiles, envs, nil, nil)
		return or, detail
	}
	if r.Model == nil {
		return "", "replay has no model"
	}
	if r.Oracle == "cli-differs" {
		cli = newCLI("")
		defer func() { cli.close(); cli = nil }()
		forceCLI = true
		defer func() { forceCLI = false }()
		if cli == nil {
			return "", "the command-line front end is not available (VERIF_CLI)"
		}
	}
	p := &cosimProgram{f: r.Model, src: r.Source, lm: r.Options != nil && r.Options.LineMarkers, tops: topsOf(r.Model), ents: r.Model.Entries()}
	p.stdin = p.lm && r.Options.Path == ""
	plan := &envPlan{}
	if r.Env != nil {
		plan.envs = []env.Env{*r.Env}
	} else {
		plan.envs = []env.Env{{Seed: 1, Bias: 0.5, Dom: 2}}
	}
	ff := cosimEval(r.Property, p, plan, nil, r.Entry)
	if ff == nil {
		return "", ""
	}
	return ff.oracle, ff.detail
}

// DebugGen renders the program of one run (debugging aid).
func DebugGen(prop string, seed, run uint64) string {
	runSeed := rng.RunSeed(seed, prop, run)
	gr := rng.New(rng.Sub(runSeed, "gen"))
	if prop == "C17" || prop == "C18" { // the full-feature generator, pretty layout
		return filegen.Join(filegen.Gen(gr, filegen.DrawConfig(gr)).Tokens(nil), 1, rng.New(1).U64)
	}
	cfg := gen.DrawConfig(gr, gen.Profile(prop), false)
	var f *model.File
	if run%64 == 17 {
		f = gen.StressFile(gr, cfg)
	} else {
		f = gen.File(gr, cfg)
	}
	return model.Layout(f.Tokens(), 0, nil)
}

// c05FullRun: lock-step of the optimize=false / optimize=true images of a full-feature
// file from every user-visible code label, under the same seeded game states.
func c05FullRun(pm *Params, run, runSeed uint64, gr *rng.R, cc *cosimCounters, st *Stats) *Failure {
	cfg := filegen.DrawConfig(gr)
	f := filegen.Gen(gr, cfg)
	lr := rng.New(rng.Sub(runSeed, "layout"))
	src := filegen.Join(f.Tokens(nil), 1+int(runSeed%2), lr.U64)
	oa := fgOptions(f)
	or := rng.New(rng.Sub(runSeed, "options"))
	oa.LineMarkers = or.Bool()
	if oa.LineMarkers {
		oa.Path = "prog.pory"
	}
	ob := oa
	ob.Optimize = true
	files := map[string]string{"font_config.json": string(f.Fonts.JSON())}
	var envs []env.Env
	for k := 0; k < 4; k++ {
		envs = append(envs, env.Env{Seed: rng.H(runSeed, 0xe17, uint64(k)), Bias: []float64{0.2, 0.5, 0.8}[or.Intn(3)], Dom: 4})
	}
	ff, detail, entry, e, ta, tb, out := c05FullEval(src, &oa, &ob, files, envs, cc, f)
	if ff == "" {
		return nil
	}
	// minimise the source text: drop chunks of bytes while the same oracle still fails
	// (candidates that no longer compile are simply not accepted)
	{
		menvs := envs
		if entry != "" {
			menvs = []env.Env{e}
		}
		budget := 800
		in := src
		for chunk := len(in) / 2; chunk >= 1 && budget > 0; chunk /= 2 {
			for i := 0; i+chunk <= len(in) && budget > 0; {
				cand := in[:i] + in[i+chunk:]
				budget--
				if !utf8.ValidString(cand) {
					i += chunk
					continue
				}
				if o2, _, _, _, _, _, _ := c05FullEval(cand, &oa, &ob, files, menvs, nil, nil); o2 == ff {
					in = cand
				} else {
					i += chunk
				}
			}
		}
		if in != src {
			if o2, d2, en2, e2, ta2, tb2, out2 := c05FullEval(in, &oa, &ob, files, menvs, nil, nil); o2 == ff {
				src, detail, entry, e, ta, tb, out = in, d2, en2, e2, ta2, tb2, out2
			}
		}
	}
	r := &Replay{Version: 1, Engine: "cosim", Property: "C05", Oracle: ff, VerifSeed: pm.VerifSeed, Run: run, RunSeed: runSeed, Detail: detail,
		Source: src, Options: &oa, Options2: &ob, Entry: entry, Expected: ta, Actual: tb, Output: out, FullFiles: files}
	if entry != "" {
		r.Env = &e
	}
	fl := &Failure{Property: "C05", Oracle: ff, Detail: detail, Replay: r}
	if id := pm.Known.Attribute(r); id != "" {
		st.KnownSeen[id]++
		return nil
	}
	path, err := WriteReplay(pm.ReplayDir, r)
	if err != nil {
		fl.Detail += " (could not write replay: " + err.Error() + ")"
	}
	fl.Path = path
	return fl
}

func c05FullEval(src string, oa, ob *comp.Options, files map[string]string, envs []env.Env, cc *cosimCounters, f *filegen.File) (string, string, string, env.Env, *trace.Trace, *trace.Trace, string) {
	d := &Disk{Files: map[string][]byte{}}
	for k, v := range files {
		d.Files[k] = []byte(v)
	}
	Mount(d)
	ra := comp.Compile(src, oa, cosimCompLim, nil)
	rb := comp.Compile(src, ob, cosimCompLim, nil)
	Mount(nil)
	var none env.Env
	if cc != nil {
		cc.ticks += ra.Ticks + rb.Ticks
		cc.digest.Add(ra.Key())
		cc.digest.Add(rb.Key())
	}
	if ra.HasOut != rb.HasOut {
		return "accept-differs", fmt.Sprintf("optimize=false: %.200q optimize=true: %.200q", ra.Key(), rb.Key()), "", none, nil, nil, ""
	}
	if !ra.HasOut {
		if cc != nil {
			cc.rejected = "rejected full-feature file"
		}
		return "", "", "", none, nil, nil, ""
	}
	ia, ib := vm.Load(ra.Out), vm.Load(rb.Out)
	all := map[string]bool{}
	for _, l := range ia.Order {
		all[l] = true
	}
	skip := map[string]bool{}
	tops := map[string]bool{}
	if f != nil {
		for _, it := range f.Items {
			tops[it.Name] = true
			if it.Kind != "script" {
				skip[it.Name] = true
			}
		}
	}
	ua, ub := userLabels(ia, all), userLabels(ib, all)
	if ua != ub {
		return "labels-differ", fmt.Sprintf("user-visible labels differ: optimize=false %.300s ; optimize=true %.300s", ua, ub), "", none, nil, nil, rb.Out
	}
	if ha, hb := hoisted(ia), hoisted(ib); ha != hb {
		return "hoisted-differ", "hoisted data differ between optimize=false and optimize=true", "", none, nil, nil, rb.Out
	}
	for _, l := range ia.Order {
		if skip[l] || isGenerated(l, all) || reHoisted.MatchString(l) || len(ib.Labels[l]) != 1 || len(ia.Labels[l]) != 1 {
			continue
		}
		idx := ia.Labels[l][0]
		if idx >= len(ia.Instrs) || ia.Instrs[idx].Data {
			continue
		}
		for _, e := range envs {
			ta := vm.Run(ia, l, &e, tops, vmLim, nil)
			tb := vm.Run(ib, l, &e, tops, vmLim, nil)
			if cc != nil {
				cc.evals++
				cc.steps += int64(ta.Steps + tb.Steps)
				cc.digest.Add(ta.String())
				cc.digest.Add(tb.String())
				if ta.Decisions >= 1 && len(ta.Events) >= 1 {
					cc.distinct = append(cc.distinct, rng.H(rng.HashStr(src), rng.HashStr(l), ta.Path))
				}
			}
			fa, fb := strings.HasPrefix(ta.Finish, "fault:"), strings.HasPrefix(tb.Finish, "fault:")
			if fa && fb {
				// raw blocks and references to unknown labels can legitimately run off; both
				// images must still have performed the same commands first
				ta.Finish, tb.Finish = "fault", "fault"
			}
			if dd := trace.Diff(ta, tb); dd != "" {
				return "lockstep", "optimize=true vs optimize=false from label " + l + ": " + dd, l, e, ta, tb, rb.Out
			}
		}
	}
	return "", "", "", none, nil, nil, ""
}

// DebugOuts prints, per run, a hash of the emitted text of the generated program under
// optimize=false / optimize=true (debugging aid: diff the listing of two builds to see
// whether a source change alters any output at all).
func DebugOuts(prop string, seed, count uint64) {
	for i := uint64(0); i < count; i++ {
		runSeed := rng.RunSeed(seed, prop, i)
		gr := rng.New(rng.Sub(runSeed, "gen"))
		cfg := gen.DrawConfig(gr, gen.Profile(prop), false)
		f := gen.File(gr, cfg)
		p := buildProgram(f, 0, 1, false)
		_, a := compileFor(p, false, false)
		_, b := compileFor(p, true, false)
		fmt.Printf("%d %x %x\n", i, rng.HashStr(a.Key()), rng.HashStr(b.Key()))
	}
}

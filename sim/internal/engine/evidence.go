package engine

import (
	"encoding/json"
	"fmt"
	"os"
	"path/filepath"
)

var levels = map[string]string{"C01": "exploration", "C02": "exploration", "C03": "exploration", "C05": "exploration", "C11": "exploration", "C17": "exploration", "C18": "fault_enumeration"}

var rules = map[string]string{
	"C01": "seeded programs (all control constructs, labels/gotos/calls, poryswitch statements as context, 1-4 scripts + inline map scripts; swarm config per run) x seeded game states re-drawn after every command x optimize{off,on} (line markers seeded); one evaluation = one (program, entry, environment, optimize) execution of the emitted image in the VM compared with the reference interpreter. distinct_nontrivial = number of distinct (source hash, entry, reference decision-path hash) triples whose path took >=1 branch decision and performed >=1 command.",
	"C02": "seeded boolean expressions (<=8/12 leaves, all leaf forms/operators, minimal + redundant parentheses, negated groups) in if/elif/while/do-while; per program ALL assignments to its atomic flag/trainer/var queries at epoch 0 when the product is within the cap (else that many seeded samples), plus seeded environments. distinct_nontrivial = distinct (source hash, entry, decision-path hash) with >=2 leaf evaluations on the path.",
	"C03": "seeded switch arrangements (<=8 cases, default anywhere/absent, any empty/non-empty pattern, break anywhere, nested, in loops, first/last); per program EVERY value of every switched var (0..dom+2 plus one unused value, product within the cap) held for the whole run, plus seeded environments. distinct_nontrivial = distinct (source hash, entry, decision-path hash) with >=1 decision and >=1 command.",
	"C05": "union workload, every fourth run a full-feature file (poryswitch, const, format, raw, mart, mapscripts) run from every user-visible code label; optimize=false and optimize=true images of the same program executed in lock-step from every entry under the same environments; hosted load-time invariants on both images. distinct_nontrivial = distinct (source hash, entry, decision-path hash of the unoptimized run) with >=1 decision and >=1 command.",
	"C11": "seeded command configs (var name / argument position); AutoVar leaves mixed with plain leaves at any position and as switch operands, in loops; preamble commands are trace events. distinct_nontrivial = distinct (source hash, entry, decision-path hash) with >=1 decision and >=1 command.",
	"C17": "seeded histories (5-40 operations over a pool of 4-10 full-feature files x option sets) in one process with seeded map-iteration permutations at every map-range visit and injected aborted / faulted compilations; reference = the same operation alone in a pristine child process; plus statement-independence (clause 2) cases. distinct_nontrivial = distinct (history op-sequence hash, map-order plan hash) with length >=3, >=1 operation repeated after a different one, and >=1 seam visit with >=2 keys under a non-identity permutation.",
	"C18": "per generated well-formed program: EOF at EVERY token boundary (enumerated), plus seeded token loss/duplication/swap/replacement/insertion, rune insertion, token soup, simulated-disk faults on the font file, environment faults; normal and lint parser; deterministic tick/depth/output budgets. distinct_nontrivial = distinct (input hash, option hash) whose fault was effective (outcome differs from the unfaulted baseline, or the faulted font file was read).",
}

var assumptions = map[string][]string{
	"cosim": {
		"script-engine semantics of the 14 control macros (goto call return end goto_if_set/unset compare compare_var_to_value goto_if_xx checktrainerflag goto_if switch case) as in asm/macros/event.inc + src/script.c of pokeemerald; every other instruction is an opaque command that may change any flag/var",
		"reference semantics per README sections 'script Statement', 'Boolean Expressions', 'while and do...while Loops', 'Conditional Operators', 'switch Statement', 'Labels', 'AutoVar Commands' and the property text; implicit return at the end of a body; continue in do...while returns to the first body statement",
		"generated names never imitate generated labels (<script>_<n>, _Text_, _Movement_)",
		"a clean batch of seeded runs is evidence, not proof",
	},
	"hist": {
		"every permutation the map-order seam produces is an order the Go runtime may produce",
		"reference = same operation in a pristine child process with canonical map order and a healthy simulated disk",
		"log output (log.Printf warnings) is not part of the compared result",
	},
	"fault": {
		"progress budgets (ticks, recursion depth, output length) are generous linear bounds in the input length, validated >=50x above the maximum observed on the unchanged tree; they are not derived from implementation constants",
		"inputs are valid UTF-8 by construction",
	},
}

// WriteEvidence writes /verif/evidence/<id>.json.
func WriteEvidence(path, prop, tier string, seed, runs uint64, workers, distinct int, wall float64, st *Stats, violations int, instrReport string) error {
	cov := map[string]interface{}{
		"evaluations":         st.Evaluations,
		"distinct_nontrivial": distinct,
		"rule":                rules[prop],
		"samples":             st.Samples,
		"runs":                st.Runs,
		"runs_per_hour":       int64(float64(st.Runs) / wall * 3600),
		"first_run":           0,
		"last_run":            runs - 1,
		"workers":             workers,
		"programs":            st.Programs,
		"sim_steps":           st.SimSteps,
		"compiler_ticks":      st.CompilerTicks,
		"simulated_time_note": "there is no clock in this system; simulated time is reported in steps (VM instructions + reference steps, compiler loop ticks)",
		"inner_exhaustive":    map[string]int64{"programs": st.InnerPrograms, "assignments": st.InnerAssign},
		"faults":              st.Faults,
		"faults_note":         "per kind: configured = planned, fired = actually applied (a disk fault fires only if the file is read; the game-state re-draw fires at every command event), effective = changed the outcome relative to the unfaulted baseline (co-simulation: branch decisions taken after at least one re-draw)",
		"probes":              st.Probes,
		"finish_kinds":        st.Finish,
		"budget_runs":         st.BudgetRuns,
		"rejected_programs":   st.Rejected,
		"rejected_messages":   st.RejectedMsgs,
		"components": map[string][]string{
			"real":       {"lexer", "parser (incl. formattext)", "emitter", "token", "ast"},
			"stub":       {"script VM + loader", "game state", "simulated disk"},
			"subprocess": {fmt.Sprintf("main.go (command-line front end: flag parsing, command-config loading, file I/O) - built as is and run as a subprocess for %d sampled compilations: output file compared with the library call (co-simulation), or exit status / crash trace compared with the library's answer (fault campaign)", st.CLIChecked)},
		},
		"known_findings_seen": st.KnownSeen,
		"selfcheck":           map[string]int64{"replayed": st.Replayed, "digest_mismatches": st.DigestMismatch, "plain_vs_instrumented": st.TranspChecked},
		"exhaustive":          false,
	}
	if engineOfProp(prop) == "fault" {
		cov["max_observed_over_budget"] = map[string]float64{"ticks": st.MaxTicksRatio, "depth": st.MaxDepthRatio, "output_len": st.MaxOutRatio}
	}
	if st.Unordered > 0 {
		cov["unordered_map_visits"] = st.Unordered
	}
	if instrReport != "" {
		if b, err := os.ReadFile(instrReport); err == nil {
			var ir map[string]interface{}
			if json.Unmarshal(b, &ir) == nil {
				cov["unseamed_sources"] = ir["unseamed_sources"]
				cov["map_range_sites"] = ir["map_range_sites"]
				cov["readfile_sites"] = ir["readfile_sites"]
				cov["go_statement_sites"] = ir["go_statement_sites"]
				if gs, ok := ir["go_statement_sites"].([]interface{}); ok && len(gs) > 0 {
					cov["goroutine_scheduling"] = "the tree starts goroutines: every compilation ran on ONE processor with seeded hand-overs at loop heads (simhook.Tick -> runtime.Gosched, keyed by run seed, input and tick number), garbage collection off during the call, under a deadlock watchdog and goroutine accounting; to whom the processor passes is the Go run queue's decision, not the simulator's"
				} else {
					cov["goroutine_scheduling"] = "the tree contains no go statement: the compiler is single-threaded and is called inline; scheduling is not a source of nondeterminism"
				}
			}
		}
	}
	if len(st.Samples) == 0 {
		cov["samples"] = []string{"(no sample recorded)"}
	}
	ev := map[string]interface{}{
		"property_id": prop,
		"tier":        tier,
		"seed":        seed,
		"level":       levels[prop],
		"coverage":    cov,
		"assumptions": assumptions[engineOfProp(prop)],
		"wall_s":      wall,
		"violations":  violations,
	}
	b, err := json.MarshalIndent(ev, "", " ")
	if err != nil {
		return err
	}
	if err := os.MkdirAll(filepath.Dir(path), 0o755); err != nil {
		return err
	}
	return os.WriteFile(path, b, 0o644)
}

func engineOfProp(prop string) string {
	switch prop {
	case "C17":
		return "hist"
	case "C18":
		return "fault"
	}
	return "cosim"
}

// DefaultCount is the number of runs per tier (calibrated so that quick takes ~20-30 s
// and thorough ~10-12 min on 16 cores).
func DefaultCount(prop, tier string) uint64 {
	q := map[string]uint64{"C01": 160000, "C02": 24000, "C03": 52000, "C05": 180000, "C11": 125000, "C17": 12000, "C18": 25000}
	t := map[string]uint64{"C01": 6000000, "C02": 600000, "C03": 1200000, "C05": 6000000, "C11": 4500000, "C17": 400000, "C18": 800000}
	if tier == "thorough" {
		return t[prop]
	}
	return q[prop]
}

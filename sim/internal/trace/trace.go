// Package trace is what both sides of the co-simulation produce: the sequence of
// script commands performed and the way execution finished.
package trace

import (
	"fmt"
	"strings"
)

type Event struct {
	Name string `json:"name"`
	Args string `json:"args"`
}

func (e Event) String() string {
	if e.Args == "" {
		return e.Name
	}
	return e.Name + " " + e.Args
}

type Trace struct {
	Events []Event `json:"events"`
	// Finish: "end", "return", "exit(L)", "hang", "overflow", "budget", or "fault: ..."
	Finish string `json:"finish"`
	Steps  int    `json:"steps"`
	// Decisions counts branch decisions taken (tests evaluated).
	Decisions int `json:"decisions"`
	// LateDecisions counts decisions taken after at least one command changed the game state.
	LateDecisions int `json:"late_decisions"`
	// Path is a rolling hash of the decisions (for the distinct-path measure).
	Path uint64 `json:"path"`
}

func (t *Trace) Budget() bool { return t.Finish == "budget" }

func (t *Trace) String() string {
	var sb strings.Builder
	for _, e := range t.Events {
		sb.WriteString(e.String())
		sb.WriteString("; ")
	}
	fmt.Fprintf(&sb, "=> %s", t.Finish)
	return sb.String()
}

// Diff compares two traces. When either side stopped on its budget only the common
// event prefix is compared. It returns "" when they agree.
func Diff(want, got *Trace) string {
	n := len(want.Events)
	if len(got.Events) < n {
		n = len(got.Events)
	}
	for i := 0; i < n; i++ {
		if want.Events[i] != got.Events[i] {
			return fmt.Sprintf("event %d: want %q, got %q", i, want.Events[i].String(), got.Events[i].String())
		}
	}
	if want.Budget() || got.Budget() {
		// a side that finished (not on budget) cannot have fewer events than the other's prefix
		if !want.Budget() && len(got.Events) > len(want.Events) {
			return fmt.Sprintf("got performs event %d %q after the reference finished (%s)", n, got.Events[n].String(), want.Finish)
		}
		if !got.Budget() && len(want.Events) > len(got.Events) {
			return fmt.Sprintf("got finished (%s) after %d events, reference continues with %q", got.Finish, n, want.Events[n].String())
		}
		return ""
	}
	if len(want.Events) != len(got.Events) {
		if len(want.Events) > n {
			return fmt.Sprintf("got finished (%s) after %d events, reference continues with %q", got.Finish, n, want.Events[n].String())
		}
		return fmt.Sprintf("got performs extra event %d %q, reference finished (%s)", n, got.Events[n].String(), want.Finish)
	}
	if want.Finish != got.Finish {
		return fmt.Sprintf("finish: want %s, got %s (after %d events)", want.Finish, got.Finish, n)
	}
	return ""
}

// Package vm is the stub of the decomp's assembler + script engine: a loader for the
// emitted assembly text and a macro-level interpreter for the 14 control macros the
// compiler emits (DESIGN.md Appendix A; semantics from asm/macros/event.inc and
// src/script.c of the decomps the README targets). Everything else is an opaque
// command event. The VM never sees the generator's tree.
package vm

import (
	"fmt"
	"regexp"
	"strings"

	"verifsim/internal/env"
	"verifsim/internal/trace"
)

type Instr struct {
	Name string
	Args []string // comma separated, whitespace-free
	Rest string   // whitespace-free rest of the line
	Data bool     // assembler data directive
	Line int
}

type Image struct {
	Instrs  []Instr
	Labels  map[string][]int // label -> instruction indexes it is defined at
	LabelAt map[int][]string
	Global  map[string]bool
	Order   []string // labels in definition order
	Lines   []string
	// Hoisted data content by label (text / movement), canonical form as in package ref.
	Content map[string]string
	Diags   []string
}

var reLabel = regexp.MustCompile(`^([^\s:]+)(::?)\s*$`)
var reMarker = regexp.MustCompile(`^# \d+ ".*"$`)
var reHoistText = regexp.MustCompile(`_Text_\d+$`)
var reHoistMove = regexp.MustCompile(`_Movement_\d+$`)

func isDataDirective(name string) bool {
	return strings.HasPrefix(name, ".") || name == "map_script" || name == "map_script_2"
}

func squash(s string) string { return env.Canon(s) }

// Load parses emitted assembly text.
func Load(text string) *Image {
	im := &Image{Labels: map[string][]int{}, LabelAt: map[int][]string{}, Global: map[string]bool{}, Content: map[string]string{}}
	im.Lines = strings.Split(text, "\n")
	for ln, line := range im.Lines {
		if strings.TrimSpace(line) == "" {
			continue
		}
		if reMarker.MatchString(line) {
			continue
		}
		if line[0] != '\t' && line[0] != ' ' {
			if m := reLabel.FindStringSubmatch(line); m != nil {
				idx := len(im.Instrs)
				im.Labels[m[1]] = append(im.Labels[m[1]], idx)
				im.LabelAt[idx] = append(im.LabelAt[idx], m[1])
				im.Order = append(im.Order, m[1])
				if m[2] == "::" {
					im.Global[m[1]] = true
				}
				continue
			}
			im.Diags = append(im.Diags, fmt.Sprintf("line %d: unrecognised line %q", ln+1, line))
			continue
		}
		body := strings.TrimSpace(line)
		name := body
		rest := ""
		if i := strings.IndexAny(body, " \t"); i >= 0 {
			name = body[:i]
			rest = strings.TrimSpace(body[i+1:])
		}
		in := Instr{Name: name, Line: ln + 1, Data: isDataDirective(name)}
		if in.Data && strings.HasPrefix(rest, `"`) {
			// keep string directives verbatim (content may contain spaces and commas)
			in.Rest = rest
			in.Args = []string{rest}
		} else {
			in.Rest = squash(rest)
			if in.Rest != "" {
				in.Args = strings.Split(in.Rest, ",")
			}
		}
		im.Instrs = append(im.Instrs, in)
	}
	for l, idxs := range im.Labels {
		if len(idxs) > 1 {
			im.Diags = append(im.Diags, fmt.Sprintf("label %s defined %d times", l, len(idxs)))
		}
	}
	// hoisted data content
	for l, idxs := range im.Labels {
		if len(idxs) != 1 {
			continue
		}
		i := idxs[0]
		if reHoistText.MatchString(l) {
			var parts []string
			dir := ""
			j := i
			for ; j < len(im.Instrs) && im.Instrs[j].Data && strings.HasPrefix(im.Instrs[j].Rest, `"`); j++ {
				if j > i && len(im.LabelAt[j]) > 0 {
					break
				}
				if dir == "" {
					dir = im.Instrs[j].Name
				}
				r := im.Instrs[j].Rest
				if len(r) >= 2 && strings.HasSuffix(r, `"`) {
					r = r[1 : len(r)-1]
				}
				parts = append(parts, r)
			}
			if len(parts) > 0 {
				im.Content[l] = "<T:" + dir + ":" + strings.Join(parts, "\n") + ">"
			}
		} else if reHoistMove.MatchString(l) {
			var steps []string
			for j := i; j < len(im.Instrs); j++ {
				if j > i && len(im.LabelAt[j]) > 0 {
					break
				}
				if im.Instrs[j].Data {
					break
				}
				steps = append(steps, im.Instrs[j].Name+im.Instrs[j].Rest)
				if im.Instrs[j].Name == "step_end" {
					break
				}
			}
			im.Content[l] = "<M:" + strings.Join(steps, ",") + ">"
		}
	}
	return im
}

// DataLabels returns the canonical multiset of hoisted data (content strings, sorted by label order).
func (im *Image) HoistedContents() map[string]int {
	out := map[string]int{}
	for _, c := range im.Content {
		out[c]++
	}
	return out
}

type Limits struct {
	Steps  int
	Events int
	Stack  int
}

// vmKey is the exact state of the machine between two command events.
type vmKey struct {
	pc    int32
	cmp   int8
	sw    int64
	swSet bool
	depth int8
	stack [32]int32
}

type machine struct {
	im     *Image
	env    *env.Env
	tops   map[string]bool
	epoch  int
	tr     trace.Trace
	stack  []int
	cmp    int // latched comparison result, -1 = none
	sw     int // latched switch value
	swSet  bool
	seen   map[vmKey]struct{}
	probes map[string]int
}

func (m *machine) probe(s string) {
	if m.probes != nil {
		m.probes[s]++
	}
}

func (m *machine) event(in *Instr) {
	args := in.Rest
	if len(in.Args) > 0 {
		parts := make([]string, len(in.Args))
		for i, a := range in.Args {
			if c, ok := m.im.Content[a]; ok {
				parts[i] = c
			} else {
				parts[i] = a
			}
		}
		args = strings.Join(parts, ",")
	}
	m.tr.Events = append(m.tr.Events, trace.Event{Name: in.Name, Args: args})
	m.epoch++
	clear(m.seen)
}

func (m *machine) decide(b bool) bool {
	m.tr.Decisions++
	x := uint64(2)
	if b {
		x = 3
	}
	m.tr.Path = m.tr.Path*1099511628211 + x
	return b
}

// jump resolves a label. ok=false means execution finished (exit / fault).
func (m *machine) jump(l string) (int, bool) {
	idxs := m.im.Labels[l]
	switch len(idxs) {
	case 0:
		m.tr.Finish = "exit(" + l + ")"
		return 0, false
	case 1:
		return idxs[0], true
	}
	m.tr.Finish = fmt.Sprintf("fault: jump to label %s which is defined %d times", l, len(idxs))
	return 0, false
}

var condIdx = map[string]int{"goto_if_lt": 0, "goto_if_eq": 1, "goto_if_gt": 2, "goto_if_le": 3, "goto_if_ge": 4, "goto_if_ne": 5}

// Run executes the image from the entry label. tops = names that start a new
// top-level item (falling onto one of them sequentially is a run-off).
func Run(im *Image, entry string, e *env.Env, tops map[string]bool, lim Limits, probes map[string]int) *trace.Trace {
	m := &machine{im: im, env: e, tops: tops, cmp: -1, seen: map[vmKey]struct{}{}, probes: probes}
	pc, ok := m.jump(entry)
	if !ok {
		m.tr.Finish = "fault: entry label " + entry + ": " + m.tr.Finish
		return &m.tr
	}
	sequential := false
	for {
		m.tr.Steps++
		if m.tr.Steps > lim.Steps || len(m.tr.Events) > lim.Events {
			m.tr.Finish = "budget"
			break
		}
		if pc >= len(im.Instrs) {
			m.tr.Finish = "fault: run-off past the end of the file"
			break
		}
		if sequential {
			hit := false
			for _, l := range im.LabelAt[pc] {
				if m.tops[l] || reHoistText.MatchString(l) || reHoistMove.MatchString(l) {
					m.tr.Finish = "fault: run-off into " + l
					hit = true
					break
				}
			}
			if hit {
				break
			}
		}
		in := &im.Instrs[pc]
		if in.Data {
			m.tr.Finish = fmt.Sprintf("fault: run-off into data directive %s (line %d)", in.Name, in.Line)
			break
		}
		// exact machine state within one epoch: revisiting it means a command-free cycle
		k := vmKey{pc: int32(pc), cmp: int8(m.cmp), sw: int64(m.sw), swSet: m.swSet, depth: int8(len(m.stack))}
		for i, r := range m.stack {
			k.stack[i] = int32(r)
		}
		if _, dup := m.seen[k]; dup {
			m.tr.Finish = "hang"
			break
		}
		m.seen[k] = struct{}{}
		sequential = true
		taken := func(l string) bool {
			t, ok := m.jump(l)
			if !ok {
				return false
			}
			pc = t
			sequential = false
			return true
		}
		stop := false
		switch in.Name {
		case "end":
			if in.Rest == "" {
				m.tr.Finish = "end"
				stop = true
			} else {
				m.event(in)
				pc++
			}
		case "return":
			if in.Rest != "" {
				m.event(in)
				pc++
			} else if len(m.stack) == 0 {
				m.tr.Finish = "return"
				stop = true
			} else {
				pc = m.stack[len(m.stack)-1]
				m.stack = m.stack[:len(m.stack)-1]
				sequential = false
			}
		case "goto":
			if len(in.Args) != 1 {
				m.event(in)
				pc++
			} else if !taken(in.Args[0]) {
				stop = true
			}
		case "call":
			if len(in.Args) != 1 {
				m.event(in)
				pc++
			} else if len(im.Labels[in.Args[0]]) == 0 {
				m.event(in) // callee outside the file: opaque, returns
				pc++
			} else if len(m.stack) >= lim.Stack || len(m.stack) >= 32 {
				m.tr.Finish = "overflow"
				stop = true
			} else {
				m.stack = append(m.stack, pc+1)
				if !taken(in.Args[0]) {
					stop = true
				}
			}
		case "goto_if_set", "goto_if_unset":
			if len(in.Args) != 2 {
				m.tr.Finish = "fault: malformed " + in.Name + " " + in.Rest
				stop = true
				break
			}
			set := e.Flag(m.epoch, in.Args[0])
			if m.decide(set == (in.Name == "goto_if_set")) {
				if !taken(in.Args[1]) {
					stop = true
				}
			} else {
				pc++
			}
		case "compare", "compare_var_to_value":
			if len(in.Args) != 2 {
				m.tr.Finish = "fault: malformed " + in.Name + " " + in.Rest
				stop = true
				break
			}
			m.cmp = env.Cmp(e.Var(m.epoch, in.Args[0]), e.Operand(m.epoch, in.Args[1], in.Name == "compare_var_to_value"))
			pc++
		case "checktrainerflag":
			if len(in.Args) != 1 {
				m.tr.Finish = "fault: malformed checktrainerflag " + in.Rest
				stop = true
				break
			}
			if e.Trainer(m.epoch, in.Args[0]) {
				m.cmp = 1
			} else {
				m.cmp = 0
			}
			pc++
		case "goto_if_lt", "goto_if_eq", "goto_if_gt", "goto_if_le", "goto_if_ge", "goto_if_ne", "goto_if":
			var ci int
			var target string
			if in.Name == "goto_if" {
				if len(in.Args) != 2 || len(in.Args[0]) != 1 || in.Args[0][0] < '0' || in.Args[0][0] > '5' {
					m.tr.Finish = "fault: malformed goto_if " + in.Rest
					stop = true
					break
				}
				ci = int(in.Args[0][0] - '0')
				target = in.Args[1]
			} else {
				if len(in.Args) != 1 {
					m.tr.Finish = "fault: malformed " + in.Name + " " + in.Rest
					stop = true
					break
				}
				ci = condIdx[in.Name]
				target = in.Args[0]
			}
			if m.cmp < 0 {
				m.tr.Finish = "fault: conditional jump without a preceding comparison (line " + fmt.Sprint(in.Line) + ")"
				stop = true
				break
			}
			if m.decide(env.CondTable[ci][m.cmp]) {
				if !taken(target) {
					stop = true
				}
			} else {
				pc++
			}
		case "switch":
			if len(in.Args) != 1 {
				m.tr.Finish = "fault: malformed switch " + in.Rest
				stop = true
				break
			}
			m.sw = e.Var(m.epoch, in.Args[0])
			m.swSet = true
			pc++
		case "case":
			if len(in.Args) != 2 || !m.swSet {
				m.tr.Finish = "fault: malformed or unlatched case " + in.Rest
				stop = true
				break
			}
			m.cmp = env.Cmp(m.sw, e.Operand(m.epoch, in.Args[0], false))
			m.tr.Decisions++
			if m.cmp == 1 {
				m.tr.Path = m.tr.Path*1099511628211 + 5
				if !taken(in.Args[1]) {
					stop = true
				}
			} else {
				m.tr.Path = m.tr.Path*1099511628211 + 4
				pc++
			}
		default:
			m.event(in)
			m.cmp = -1 // commands may clobber the comparison result
			m.swSet = false
			pc++
		}
		if stop {
			break
		}
	}
	return &m.tr
}

// Package env is the simulator-owned game state: the outcome of every flag / var /
// trainer test, re-drawn after every command ("epoch"). It is a keyed PRF of the run
// seed, so an answer does not depend on who asks first or how often.
package env

import (
	"fmt"
	"strconv"
	"strings"

	"verifsim/internal/rng"
)

type Env struct {
	Seed uint64  `json:"seed"`
	Bias float64 `json:"bias"` // probability that a flag / trainer flag is set
	Dom  int     `json:"dom"`  // vars take values 0..Dom-1
	// Vals, when set, is the value alphabet of vars instead of 0..Dom-1 (big-number runs)
	Vals []int `json:"vals,omitempty"`
	// Overlay0 fixes answers for epoch 0 only; Sticky fixes them for every epoch.
	// Keys: "flag:NAME", "trainer:NAME" (0/1), "var:NAME" (value).
	Overlay0 map[string]int `json:"overlay0,omitempty"`
	Sticky   map[string]int `json:"sticky,omitempty"`
	// Log, when non-nil, collects every consulted (epoch, query) -> answer.
	Log map[string]int `json:"-"`
}

func wordByte(c byte) bool {
	return c == '_' || c >= '0' && c <= '9' || c >= 'a' && c <= 'z' || c >= 'A' && c <= 'Z' || c >= 0x80
}

// Canon is the spacing-insensitive form of an operand / argument text: blanks are
// dropped, except that a blank between two word characters is kept as ONE blank - "BASE + 8",
// "BASE+8" and "BASE  +8" are the same text, "0x1 f" and "0x1f" are not (an assembler reads
// the former as two tokens).
func Canon(s string) string {
	if strings.IndexAny(s, " \t") < 0 {
		return s
	}
	var sb strings.Builder
	pendingBlank := false
	for i := 0; i < len(s); i++ {
		c := s[i]
		if c == ' ' || c == '\t' {
			pendingBlank = true
			continue
		}
		if pendingBlank && sb.Len() > 0 && wordByte(c) && wordByte(sb.String()[sb.Len()-1]) {
			sb.WriteByte(' ')
		}
		pendingBlank = false
		sb.WriteByte(c)
	}
	return sb.String()
}

func (e *Env) lookup(epoch int, key string) (int, bool) {
	if e.Sticky != nil {
		if v, ok := e.Sticky[key]; ok {
			return v, true
		}
	}
	if epoch == 0 && e.Overlay0 != nil {
		if v, ok := e.Overlay0[key]; ok {
			return v, true
		}
	}
	return 0, false
}

func (e *Env) log(epoch int, key string, v int) {
	if e.Log != nil {
		e.Log[fmt.Sprintf("%04d %s", epoch, key)] = v
	}
}

func (e *Env) boolq(epoch int, kind, name string) bool {
	key := kind + ":" + Canon(name)
	if v, ok := e.lookup(epoch, key); ok {
		e.log(epoch, key, v)
		return v != 0
	}
	h := rng.H(e.Seed, uint64(epoch), rng.HashStr(key))
	b := float64(h>>11)/float64(1<<53) < e.Bias
	if b {
		e.log(epoch, key, 1)
	} else {
		e.log(epoch, key, 0)
	}
	return b
}

func (e *Env) Flag(epoch int, name string) bool    { return e.boolq(epoch, "flag", name) }
func (e *Env) Trainer(epoch int, name string) bool { return e.boolq(epoch, "trainer", name) }

// Var is the value of a game variable in this epoch.
func (e *Env) Var(epoch int, name string) int {
	key := "var:" + Canon(name)
	if v, ok := e.lookup(epoch, key); ok {
		e.log(epoch, key, v)
		return v
	}
	h := rng.H(e.Seed, uint64(epoch), rng.HashStr(key))
	if len(e.Vals) > 0 {
		v := e.Vals[h%uint64(len(e.Vals))]
		e.log(epoch, key, v)
		return v
	}
	d := e.Dom
	if d < 2 {
		d = 2
	}
	v := int(h % uint64(d))
	e.log(epoch, key, v)
	return v
}

// IsVarRef reports whether the script engine's `compare` would read tok as a variable:
// numeric ids 0x4000-0x40FF / 0x8000-0x8015, or a VAR_ symbol.
func IsVarRef(tok string) bool {
	if n, err := strconv.ParseInt(tok, 0, 64); err == nil {
		return (n >= 0x4000 && n <= 0x40FF) || (n >= 0x8000 && n <= 0x8015)
	}
	return strings.HasPrefix(tok, "VAR_")
}

// Operand is the value a comparison operand denotes. strict = compare_var_to_value /
// value(): the raw value, never a variable.
func (e *Env) Operand(epoch int, tok string, strict bool) int {
	tok = Canon(tok)
	if !strict && IsVarRef(tok) {
		return e.Var(epoch, tok)
	}
	if n, err := strconv.ParseInt(tok, 0, 64); err == nil {
		return int(n)
	}
	if n, ok := evalArith(tok); ok {
		return n
	}
	switch tok {
	case "TRUE": // the decomp's constants
		return 1
	case "FALSE":
		return 0
	}
	// symbolic constant: fixed for the whole run
	d := e.Dom
	if d < 2 {
		d = 2
	}
	return int(rng.H(e.Seed, 0xc0457, rng.HashStr("const:"+tok)) % uint64(d))
}

// evalArith is the assembler's reading of an operand made of integer literals and + - *
// and parentheses ('*' binds tighter, both associate to the left). ok is false for anything else.
func evalArith(tok string) (int, bool) {
	if !strings.ContainsAny(tok, "+-*") {
		return 0, false
	}
	i := 0
	var expr func() (int, bool)
	factor := func() (int, bool) {
		neg := false
		for i < len(tok) && tok[i] == '-' {
			neg = !neg
			i++
		}
		if i < len(tok) && tok[i] == '(' { // value(a + b) is emitted as "( a + b )"
			i++
			v, ok := expr()
			if !ok || i >= len(tok) || tok[i] != ')' {
				return 0, false
			}
			i++
			if neg {
				v = -v
			}
			return v, true
		}
		j := i
		for j < len(tok) && wordByte(tok[j]) {
			j++
		}
		n, err := strconv.ParseInt(tok[i:j], 0, 64)
		if err != nil {
			return 0, false
		}
		i = j
		if neg {
			n = -n
		}
		return int(n), true
	}
	term := func() (int, bool) {
		v, ok := factor()
		for ok && i < len(tok) && tok[i] == '*' {
			i++
			var w int
			w, ok = factor()
			v *= w
		}
		return v, ok
	}
	expr = func() (int, bool) {
		v, ok := term()
		for ok && i < len(tok) && (tok[i] == '+' || tok[i] == '-') {
			op := tok[i]
			i++
			var w int
			w, ok = term()
			if op == '+' {
				v += w
			} else {
				v -= w
			}
		}
		return v, ok
	}
	v, ok := expr()
	if !ok || i != len(tok) {
		return 0, false
	}
	return v, true
}

// Cmp returns 0 (less), 1 (equal), 2 (greater) like the engine's comparisonResult.
func Cmp(a, b int) int {
	switch {
	case a < b:
		return 0
	case a == b:
		return 1
	}
	return 2
}

// CondTable is sScriptConditionTable of src/script.c: index by condition 0..5
// (<, ==, >, <=, >=, !=), then by comparison result.
var CondTable = [6][3]bool{
	{true, false, false},
	{false, true, false},
	{false, false, true},
	{true, true, false},
	{false, true, true},
	{true, false, true},
}

// Package model is the generator's own tree of a Poryscript file: the thing the
// reference interpreter executes. It never sees anything the repository computed.
package model

import (
	"fmt"
	"strings"
)

type ArgKind int

const (
	ArgPlain ArgKind = iota
	ArgText
	ArgMoves
)

type Move struct {
	Name string `json:"n"`
	Mul  int    `json:"m,omitempty"` // 0 = no multiplier written
}

type Arg struct {
	Kind    ArgKind  `json:"k,omitempty"`
	Toks    []string `json:"t,omitempty"`
	Text    string   `json:"s,omitempty"`
	StrType string   `json:"st,omitempty"`
	Moves   []Move   `json:"mv,omitempty"`
}

type Cmd struct {
	Name  string `json:"name"`
	Args  []Arg  `json:"args,omitempty"`
	Paren bool   `json:"paren,omitempty"` // print "()" even without args
}

type StmtKind int

const (
	KCmd StmtKind = iota
	KLabel
	KIf
	KWhile
	KDoWhile
	KBreak
	KContinue
	KSwitch
	KPory // poryswitch(KEY) { VAL: stmt  VAL { stmts } ... } - compile-time selection
)

var kindNames = []string{"cmd", "label", "if", "while", "dowhile", "break", "continue", "switch", "poryswitch"}

func (k StmtKind) String() string { return kindNames[k] }

type Stmt struct {
	K       StmtKind  `json:"k"`
	Cmd     *Cmd      `json:"cmd,omitempty"`
	Label   string    `json:"label,omitempty"`
	Global  int       `json:"scope,omitempty"` // label scope: 0 none, 1 (global), 2 (local)
	Conds   []*Expr   `json:"conds,omitempty"` // if + elifs
	Bodies  [][]*Stmt `json:"bodies,omitempty"`
	HasElse bool      `json:"has_else,omitempty"`
	Else    []*Stmt   `json:"else,omitempty"`
	Cond    *Expr     `json:"cond,omitempty"` // while (nil = infinite) / do-while
	Body    []*Stmt   `json:"body,omitempty"`
	Sw      *Switch   `json:"sw,omitempty"`
	PKey    string    `json:"pkey,omitempty"`
	PCases  []*PCase  `json:"pcases,omitempty"`
}

// PCase is one case of a poryswitch statement.
type PCase struct {
	Val   string  `json:"val"`
	Brace bool    `json:"brace,omitempty"`
	Body  []*Stmt `json:"body,omitempty"`
}

type Switch struct {
	Var   string  `json:"var,omitempty"`
	Auto  *Cmd    `json:"auto,omitempty"`
	Cases []*Case `json:"cases"`
}

type Case struct {
	Default bool    `json:"default,omitempty"`
	Value   string  `json:"value,omitempty"`
	Body    []*Stmt `json:"body,omitempty"`
}

type ExprOp int

const (
	OLeaf ExprOp = iota
	OAnd
	OOr
	ONot // negated group: !( E )
)

type LeafKind int

const (
	LFlag LeafKind = iota
	LDefeated
	LVar
	LAuto
)

type LeafForm int

const (
	FBare LeafForm = iota // flag(F) / var(V)
	FNot                  // !flag(F) / !var(V)
	FOp                   // flag(F) == TRUE / var(V) >= 3
)

type Leaf struct {
	Kind   LeafKind `json:"kind"`
	Name   string   `json:"name,omitempty"`
	Form   LeafForm `json:"form,omitempty"`
	Op     string   `json:"op,omitempty"`
	Val    string   `json:"val,omitempty"`
	Strict bool     `json:"strict,omitempty"` // value(...)
	Auto   *Cmd     `json:"auto,omitempty"`
}

type Expr struct {
	Op     ExprOp `json:"op"`
	L      *Expr  `json:"l,omitempty"`
	R      *Expr  `json:"r,omitempty"`
	Leaf   *Leaf  `json:"leaf,omitempty"`
	Parens int    `json:"parens,omitempty"` // redundant parentheses around this node
}

type Script struct {
	Name  string  `json:"name"`
	Scope int     `json:"scope,omitempty"` // 0 none, 1 global, 2 local
	Body  []*Stmt `json:"body"`
}

type TableEntry struct {
	Var    string  `json:"var"`
	Val    string  `json:"val"`
	Ref    string  `json:"ref,omitempty"`
	Inline bool    `json:"inline,omitempty"`
	Body   []*Stmt `json:"body,omitempty"`
}

type MSEntry struct {
	Type    string       `json:"type"`
	Ref     string       `json:"ref,omitempty"`
	Inline  bool         `json:"inline,omitempty"`
	Body    []*Stmt      `json:"body,omitempty"`
	Table   []TableEntry `json:"table,omitempty"`
	IsTable bool         `json:"is_table,omitempty"`
}

type MapScripts struct {
	Name    string    `json:"name"`
	Entries []MSEntry `json:"entries"`
}

type AutoVar struct {
	VarName string `json:"var_name,omitempty"`
	ArgPos  int    `json:"arg_pos"` // -1 = use VarName
}

// File is one generated Poryscript file (only the constructs the co-simulation owns).
type File struct {
	Scripts    []*Script          `json:"scripts"`
	MapScripts *MapScripts        `json:"mapscripts,omitempty"`
	MapFirst   bool               `json:"map_first,omitempty"`
	AutoVars   map[string]AutoVar `json:"autovars,omitempty"`
	Switches   map[string]string  `json:"switches,omitempty"` // compile-time switches (-s)
	// Consts are `const NAME = value` definitions written at the top of the file. Using a
	// constant is the same as writing its (fully expanded) value.
	Consts []ConstDef `json:"consts,omitempty"`
}

// ConstDef is one constant definition; Val holds its value tokens (already expanded).
type ConstDef struct {
	Name string   `json:"name"`
	Val  []string `json:"val"`
	Src  []string `json:"src,omitempty"` // as written, when defined from another constant
}

// Sub expands constants in a blank-separated token text.
func (f *File) Sub(text string) string {
	if len(f.Consts) == 0 {
		return text
	}
	parts := strings.Fields(text)
	changed := false
	for i, p := range parts {
		for _, c := range f.Consts {
			if c.Name == p {
				parts[i] = strings.Join(c.Val, " ")
				changed = true
				break
			}
		}
	}
	if !changed {
		return text
	}
	return strings.Join(parts, " ")
}

// Selected returns the statements a poryswitch contributes under the file's switches:
// the case equal to the switch value, else the '_' case, else nothing.
func (f *File) Selected(s *Stmt) []*Stmt {
	v, ok := f.Switches[s.PKey]
	if ok {
		for _, c := range s.PCases {
			if c.Val == v {
				return c.Body
			}
		}
	}
	for _, c := range s.PCases {
		if c.Val == "_" {
			return c.Body
		}
	}
	return nil
}

// Entry is one place execution can start.
type Entry struct {
	Name string
	Body []*Stmt
}

// Entries lists every entry point: scripts and inline map scripts.
func (f *File) Entries() []Entry {
	var es []Entry
	for _, s := range f.Scripts {
		es = append(es, Entry{s.Name, s.Body})
	}
	if f.MapScripts != nil {
		for _, e := range f.MapScripts.Entries {
			if e.IsTable {
				for i, t := range e.Table {
					if t.Inline {
						es = append(es, Entry{fmt.Sprintf("%s_%s_%d", f.MapScripts.Name, e.Type, i), t.Body})
					}
				}
			} else if e.Inline {
				es = append(es, Entry{fmt.Sprintf("%s_%s", f.MapScripts.Name, e.Type), e.Body})
			}
		}
	}
	return es
}

// ---------------------------------------------------------------------------------
// Printer: model -> token list. Layout (whitespace / comments) is applied separately.

type printer struct{ toks []string }

func (p *printer) t(s ...string) { p.toks = append(p.toks, s...) }

// Tokens renders the file as a list of lexemes.
func (f *File) Tokens() []string {
	p := &printer{}
	for _, c := range f.Consts {
		p.t("const", c.Name, "=")
		if len(c.Src) > 0 {
			p.t(c.Src...)
		} else {
			p.t(c.Val...)
		}
		p.t(NL)
	}
	if f.MapScripts != nil && f.MapFirst {
		p.mapscripts(f.MapScripts)
	}
	for _, s := range f.Scripts {
		p.t("script")
		p.scope(s.Scope)
		p.t(s.Name, "{")
		p.block(s.Body)
		p.t("}", NL)
	}
	if f.MapScripts != nil && !f.MapFirst {
		p.mapscripts(f.MapScripts)
	}
	return p.toks
}

func (p *printer) scope(s int) {
	switch s {
	case 1:
		p.t("(", "global", ")")
	case 2:
		p.t("(", "local", ")")
	}
}

func (p *printer) mapscripts(m *MapScripts) {
	p.t("mapscripts", m.Name, "{")
	for _, e := range m.Entries {
		p.t(e.Type)
		switch {
		case e.IsTable:
			p.t("[")
			for _, t := range e.Table {
				p.t(t.Var, ",", t.Val)
				if t.Inline {
					p.t("{")
					p.block(t.Body)
					p.t("}")
				} else {
					p.t(":", t.Ref)
				}
				p.t(NL)
			}
			p.t("]")
		case e.Inline:
			p.t("{")
			p.block(e.Body)
			p.t("}")
		default:
			p.t(":", e.Ref)
		}
		p.t(NL)
	}
	p.t("}", NL)
}

func (p *printer) block(b []*Stmt) {
	for _, s := range b {
		p.stmt(s)
		p.t(NL)
	}
}

func QuoteText(strType, text string) string {
	return strType + `"` + text + `"`
}

func (p *printer) cmd(c *Cmd) {
	p.t(c.Name)
	if len(c.Args) == 0 {
		if c.Paren {
			p.t("(", ")")
		}
		return
	}
	p.t("(")
	for i, a := range c.Args {
		if i > 0 {
			p.t(",")
		}
		switch a.Kind {
		case ArgPlain:
			p.t(a.Toks...)
		case ArgText:
			p.t(QuoteText(a.StrType, a.Text))
		case ArgMoves:
			p.t("moves", "(")
			for _, m := range a.Moves {
				p.t(m.Name)
				if m.Mul > 0 {
					p.t("*", fmt.Sprint(m.Mul))
				}
			}
			p.t(")")
		}
	}
	p.t(")")
}

func (p *printer) stmt(s *Stmt) {
	switch s.K {
	case KCmd:
		p.cmd(s.Cmd)
	case KLabel:
		p.t(s.Label)
		p.scope(s.Global)
		p.t(":")
	case KIf:
		for i, c := range s.Conds {
			if i == 0 {
				p.t("if")
			} else {
				p.t("elif")
			}
			p.t("(")
			p.expr(c)
			p.t(")", "{")
			p.block(s.Bodies[i])
			p.t("}")
		}
		if s.HasElse {
			p.t("else", "{")
			p.block(s.Else)
			p.t("}")
		}
	case KWhile:
		p.t("while")
		if s.Cond != nil {
			p.t("(")
			p.expr(s.Cond)
			p.t(")")
		}
		p.t("{")
		p.block(s.Body)
		p.t("}")
	case KDoWhile:
		p.t("do", "{")
		p.block(s.Body)
		p.t("}", "while", "(")
		p.expr(s.Cond)
		p.t(")")
	case KBreak:
		p.t("break")
	case KContinue:
		p.t("continue")
	case KPory:
		p.t("poryswitch", "(", s.PKey, ")", "{", NL)
		for _, c := range s.PCases {
			p.t(c.Val)
			if c.Brace {
				p.t("{")
				p.block(c.Body)
				p.t("}", NL)
			} else {
				p.t(":")
				p.block(c.Body)
			}
		}
		p.t("}")
	case KSwitch:
		p.t("switch", "(")
		if s.Sw.Auto != nil {
			p.cmd(s.Sw.Auto)
		} else {
			p.t("var", "(", s.Sw.Var, ")")
		}
		p.t(")", "{")
		for _, c := range s.Sw.Cases {
			if c.Default {
				p.t("default", ":")
			} else {
				p.t("case")
				p.t(strings.Fields(c.Value)...)
				p.t(":")
			}
			p.t(NL)
			p.block(c.Body)
		}
		p.t("}")
	}
}

// prec: Or=1, And=2, Not/Leaf=3
func prec(e *Expr) int {
	switch e.Op {
	case OOr:
		return 1
	case OAnd:
		return 2
	}
	return 3
}

// expr prints e with the minimal parentheses its own tree needs under
// "! > && > ||, left-associative", plus e.Parens redundant pairs.
func (p *printer) expr(e *Expr) {
	for i := 0; i < e.Parens; i++ {
		p.t("(")
	}
	switch e.Op {
	case OLeaf:
		p.leaf(e.Leaf)
	case ONot:
		p.t("!", "(")
		p.expr(e.L)
		p.t(")")
	case OAnd, OOr:
		// left operand: parens needed if lower precedence
		p.operand(e.L, prec(e.L) < prec(e))
		if e.Op == OAnd {
			p.t("&&")
		} else {
			p.t("||")
		}
		// right operand: parens needed if lower or equal precedence (left-assoc)
		p.operand(e.R, prec(e.R) <= prec(e))
	}
	for i := 0; i < e.Parens; i++ {
		p.t(")")
	}
}

func (p *printer) operand(e *Expr, need bool) {
	if need && e.Parens == 0 {
		p.t("(")
		p.expr(e)
		p.t(")")
		return
	}
	p.expr(e)
}

func (p *printer) leaf(l *Leaf) {
	if l.Form == FNot {
		p.t("!")
	}
	switch l.Kind {
	case LFlag:
		p.t("flag", "(", l.Name, ")")
	case LDefeated:
		p.t("defeated", "(", l.Name, ")")
	case LVar:
		p.t("var", "(", l.Name, ")")
	case LAuto:
		p.cmd(l.Auto)
	}
	if l.Form == FOp {
		p.t(l.Op)
		if l.Strict {
			p.t("value", "(")
			p.t(strings.Fields(l.Val)...)
			p.t(")")
		} else {
			p.t(strings.Fields(l.Val)...)
		}
	}
}

// ExprString renders an expression as source text (single spaces).
func ExprString(e *Expr) string {
	p := &printer{}
	p.expr(e)
	return strings.Join(Lexemes(p.toks), " ")
}

// ---------------------------------------------------------------------------------
// Layout

// Comments is the pool of comment texts the layouts draw from: empty comments, comments
// that look like code, non-ASCII comments, comments ending in non-ASCII text.
var Comments = []string{"#", "//", "# c ) } \"", "// if ( {", "# end", "// break", "#注意: this is not the end", "// 終わり: do not break", "# Pokémon", "//é", "# return }}} \\", "//\t", "#  ", "// continue // #"}

func comment(next func() uint64) string { return Comments[next()%uint64(len(Comments))] }

// NL is a layout hint (statement boundary); it is not a lexeme.
const NL = "\x00nl"

// Lexemes drops layout hints.
func Lexemes(toks []string) []string {
	out := make([]string, 0, len(toks))
	for _, t := range toks {
		if t != NL {
			out = append(out, t)
		}
	}
	return out
}

// Layout joins lexemes with whitespace / comments. Style 0 is a canonical pretty
// print, style 1 single spaces, style >=2 seeded: next() supplies random words.
func Layout(toks []string, style int, next func() uint64) string {
	var sb strings.Builder
	if style == 0 {
		depth := 0
		lineStart := true
		prev := ""
		for _, t := range toks {
			if t == NL {
				if !lineStart {
					sb.WriteByte('\n')
					lineStart = true
				}
				continue
			}
			if t == "}" {
				depth--
				if !lineStart {
					sb.WriteByte('\n')
					lineStart = true
				}
			}
			if lineStart {
				for d := 0; d < depth; d++ {
					sb.WriteString("    ")
				}
			} else if !(prev == "(" || prev == "!" || t == ")" || t == "," || t == ":" ||
				(t == "(" && prev != "if" && prev != "elif" && prev != "while" && prev != "switch" && prev != "&&" && prev != "||" && prev != "," && prev != "[")) {
				sb.WriteByte(' ')
			}
			sb.WriteString(t)
			prev = t
			lineStart = false
			if t == "{" {
				depth++
				sb.WriteByte('\n')
				lineStart = true
			}
		}
		if !lineStart {
			sb.WriteByte('\n')
		}
		return sb.String()
	}
	if style >= 3 {
		return TightJoin(Lexemes(toks), style == 4, next)
	}
	first := true
	for _, t := range toks {
		if t == NL {
			continue
		}
		if !first {
			if style == 1 {
				sb.WriteByte(' ')
			} else {
				switch next() % 16 {
				case 0, 1, 2:
					sb.WriteByte('\n')
				case 3:
					sb.WriteString("\r\n")
				case 4:
					sb.WriteByte('\t')
				case 5:
					sb.WriteString(" " + comment(next) + "\n")
				case 6:
					sb.WriteString(" " + comment(next) + "\r\n  ")
				case 7:
					sb.WriteString("  \n\n ")
				default:
					sb.WriteByte(' ')
				}
			}
		}
		first = false
		sb.WriteString(t)
	}
	sb.WriteByte('\n')
	return sb.String()
}

func wordByte(c byte) bool {
	return c == '_' || c >= '0' && c <= '9' || c >= 'a' && c <= 'z' || c >= 'A' && c <= 'Z' || c >= 0x80
}

// NeedsSpace reports whether two adjacent lexemes must be separated to stay two tokens.
func NeedsSpace(prev, next string) bool {
	if prev == "" || next == "" {
		return false
	}
	a, b := prev[len(prev)-1], next[0]
	switch {
	case wordByte(a) && wordByte(b):
		return true
	case wordByte(a) && b == '"': // identifier glued to a string is a string-type prefix
		return true
	case a == '"' && b == '"': // adjacent literals are one text
		return true
	case wordByte(a) && b == '`', a == '`' && b == '`':
		return true
	case a == '/' && b == '/', a == '=' && b == '=', a == '!' && b == '=', a == '<' && b == '=', a == '>' && b == '=', a == '&' && b == '&', a == '|' && b == '|':
		return true
	case wordByte(a) && b == '-' && len(next) > 1: // "x -1" stays what it was either way, keep it readable
		return true
	}
	return false
}

// TightJoin writes the lexemes with no whitespace at all except where two tokens would
// otherwise merge; with comments=true some tokens are directly followed by a comment.
func TightJoin(toks []string, comments bool, next func() uint64) string {
	var sb strings.Builder
	prev := ""
	for _, t := range toks {
		if NeedsSpace(prev, t) {
			sb.WriteByte(' ')
		}
		sb.WriteString(t)
		prev = t
		if comments && next != nil {
			switch next() % 12 {
			case 0:
				sb.WriteString(comment(next) + "\n")
				prev = ""
			case 1:
				sb.WriteString(comment(next) + "\r\n")
				prev = ""
			case 2:
				sb.WriteString("\n")
				prev = ""
			}
		}
	}
	if comments && next != nil && next()%2 == 0 {
		sb.WriteString(comment(next)) // a comment at end of input without a newline
	} else {
		sb.WriteByte('\n')
	}
	return sb.String()
}

// Package ref is the small executable reference model: a structural interpreter over
// the generator's own tree (package model). Each rule is tied to a sentence of the
// README or of the property text (DESIGN.md 4.4). It shares only the game state (env)
// with the VM.
package ref

import (
	"strings"

	"verifsim/internal/env"
	"verifsim/internal/model"
	"verifsim/internal/trace"
)

type nkind int

const (
	nCmd nkind = iota
	nNop       // label
	nIf
	nWhile
	nDoEntry
	nDoTest
	nJump // break / continue
	nSwitch
	nFallOff // end of a script body: implicit return
)

type node struct {
	id     int
	kind   nkind
	stmt   *model.Stmt
	next   *node
	firsts []*node // if: first node of each body; switch: first node of each case body (nil = empty)
	els    *node   // if: else (or next)
	body   *node   // while / do: first node of the body
	target *node   // jump
	test   *node   // do entry -> its test node (unused at run time)
	// context of the statement (for reach probes only)
	loopDepth, caseDepth int
	fromSwitch           bool // break whose innermost breakable scope is a switch
	afterJump            bool // label written right after a break/continue/goto/end in its block
	sharedBody           bool // switch: some case shares a later body
}

// Program is a linked file.
type Program struct {
	file    *model.File
	nodes   []*node
	labels  map[string]*node // user labels and entry names
	entries map[string]*node
	autov   map[string]model.AutoVar
	// link-time context
	loopDepth, caseDepth int
	inSwitchBreak        bool
}

func (p *Program) newNode(k nkind, s *model.Stmt) *node {
	n := &node{id: len(p.nodes), kind: k, stmt: s, loopDepth: p.loopDepth, caseDepth: p.caseDepth}
	p.nodes = append(p.nodes, n)
	return n
}

// Link builds the continuation structure of every entry of the file.
func Link(f *model.File) *Program {
	p := &Program{file: f, labels: map[string]*node{}, entries: map[string]*node{}, autov: f.AutoVars}
	for _, e := range f.Entries() {
		fall := p.newNode(nFallOff, nil)
		first := p.link(e.Body, fall, nil, nil)
		p.entries[e.Name] = first
		if _, dup := p.labels[e.Name]; !dup {
			p.labels[e.Name] = first
		}
	}
	return p
}

func (p *Program) link(stmts []*model.Stmt, after, brk, cont *node) *node {
	next := after
	for i := len(stmts) - 1; i >= 0; i-- {
		if stmts[i].K == model.KPory {
			// a poryswitch contributes exactly the statements of the selected case, as if
			// they were written in its place (README "Compile-Time Switches")
			next = p.link(p.file.Selected(stmts[i]), next, brk, cont)
			continue
		}
		next = p.build(stmts[i], next, brk, cont)
		if stmts[i].K == model.KLabel && i > 0 {
			switch prev := stmts[i-1]; {
			case prev.K == model.KBreak, prev.K == model.KContinue:
				next.afterJump = true
			case prev.K == model.KCmd && (prev.Cmd.Name == "end" || prev.Cmd.Name == "return" || prev.Cmd.Name == "goto"):
				next.afterJump = true
			}
		}
	}
	return next
}

// hasStatements reports whether a block contributes any statement once every poryswitch
// is replaced by its selected case.
func (p *Program) hasStatements(b []*model.Stmt) bool {
	for _, s := range b {
		if s.K != model.KPory {
			return true
		}
		if p.hasStatements(p.file.Selected(s)) {
			return true
		}
	}
	return false
}

func (p *Program) build(s *model.Stmt, next, brk, cont *node) *node {
	switch s.K {
	case model.KCmd:
		n := p.newNode(nCmd, s)
		n.next = next
		return n
	case model.KLabel:
		n := p.newNode(nNop, s)
		n.next = next
		p.labels[s.Label] = n
		return n
	case model.KIf:
		n := p.newNode(nIf, s)
		n.next = next
		for _, b := range s.Bodies {
			n.firsts = append(n.firsts, p.link(b, next, brk, cont))
		}
		if s.HasElse {
			n.els = p.link(s.Else, next, brk, cont)
		} else {
			n.els = next
		}
		return n
	case model.KWhile:
		n := p.newNode(nWhile, s)
		n.next = next
		p.loopDepth++
		sb := p.inSwitchBreak
		p.inSwitchBreak = false
		n.body = p.link(s.Body, n, next, n)
		p.inSwitchBreak = sb
		p.loopDepth--
		return n
	case model.KDoWhile:
		entry := p.newNode(nDoEntry, s)
		test := p.newNode(nDoTest, s)
		test.next = next
		test.body = entry
		entry.test = test
		// 'continue' returns to the start of the loop (README): the first body statement.
		p.loopDepth++
		sb := p.inSwitchBreak
		p.inSwitchBreak = false
		entry.body = p.link(s.Body, test, next, entry)
		p.inSwitchBreak = sb
		p.loopDepth--
		return entry
	case model.KBreak:
		n := p.newNode(nJump, s)
		n.target = brk
		n.fromSwitch = p.inSwitchBreak
		return n
	case model.KContinue:
		n := p.newNode(nJump, s)
		n.target = cont
		return n
	case model.KSwitch:
		n := p.newNode(nSwitch, s)
		n.next = next
		for _, c := range s.Sw.Cases {
			// a body that only holds poryswitches selecting nothing is an empty body
			if !p.hasStatements(c.Body) {
				n.firsts = append(n.firsts, nil)
			} else {
				// 'break' leaves the switch; 'continue' still belongs to the enclosing loop.
				p.caseDepth++
				sb := p.inSwitchBreak
				p.inSwitchBreak = true
				n.firsts = append(n.firsts, p.link(c.Body, next, next, cont))
				p.inSwitchBreak = sb
				p.caseDepth--
			}
		}
		return n
	}
	panic("ref: unknown statement kind")
}

// ---------------------------------------------------------------------------------
// Rendering of command events (shared convention with the VM: whitespace-free args,
// hoisted text / movement arguments denoted by their content).

var textSuffix = map[string]string{"": "$", "ascii": `\0`, "braille": "$"}

// TextContent is the canonical denotation of an inline text argument.
func TextContent(strType, text string) string {
	if suf, ok := textSuffix[strType]; ok && !strings.HasSuffix(text, suf) {
		text += suf
	}
	dir := "string"
	if strType != "" {
		dir = strType
	}
	return "<T:." + dir + ":" + text + ">"
}

// MovesContent is the canonical denotation of a moves() argument.
func MovesContent(mv []model.Move) string {
	var steps []string
	for _, m := range mv {
		n := m.Mul
		if n <= 0 {
			n = 1
		}
		for i := 0; i < n; i++ {
			steps = append(steps, m.Name)
		}
	}
	steps = append(steps, "step_end")
	return "<M:" + strings.Join(steps, ",") + ">"
}

func ArgString(a *model.Arg) string {
	switch a.Kind {
	case model.ArgText:
		return TextContent(a.StrType, a.Text)
	case model.ArgMoves:
		return MovesContent(a.Moves)
	}
	return env.Canon(strings.Join(a.Toks, " "))
}

// PlainArg is the argument text as the compiler is documented to pass it on (tokens
// joined by single spaces); used for the AutoVar "argument at position" rule.
func PlainArg(a *model.Arg) string { return strings.Join(a.Toks, " ") }

func RenderCmd(c *model.Cmd) trace.Event { return RenderCmdIn(nil, c) }

// RenderCmdIn renders a command event with the constants of f expanded in its plain arguments.
func RenderCmdIn(f *model.File, c *model.Cmd) trace.Event {
	parts := make([]string, len(c.Args))
	for i := range c.Args {
		if f != nil && c.Args[i].Kind == model.ArgPlain {
			parts[i] = env.Canon(f.Sub(strings.Join(c.Args[i].Toks, " ")))
		} else {
			parts[i] = ArgString(&c.Args[i])
		}
	}
	return trace.Event{Name: c.Name, Args: strings.Join(parts, ",")}
}

// ---------------------------------------------------------------------------------
// Execution

type Limits struct {
	Steps  int
	Events int
	Stack  int
}

type machine struct {
	p      *Program
	env    *env.Env
	epoch  int
	tr     trace.Trace
	stack  []*node
	seen   map[refKey]struct{}
	lim    Limits
	done   bool
	Probes map[string]int
}

func (m *machine) probe(name string) {
	if m.Probes != nil {
		m.Probes[name]++
	}
}

func (m *machine) event(c *model.Cmd) {
	m.tr.Events = append(m.tr.Events, RenderCmdIn(m.p.file, c))
	m.epoch++
	clear(m.seen)
}

func (m *machine) decide(b bool) bool {
	m.tr.Decisions++
	if m.epoch > 0 {
		m.tr.LateDecisions++
	}
	x := uint64(2)
	if b {
		x = 3
	}
	m.tr.Path = m.tr.Path*1099511628211 + x
	return b
}

func (m *machine) finish(how string) *node {
	m.tr.Finish = how
	m.done = true
	return nil
}

func opIndex(op string) int {
	switch op {
	case "<":
		return 0
	case "==":
		return 1
	case ">":
		return 2
	case "<=":
		return 3
	case ">=":
		return 4
	case "!=":
		return 5
	}
	panic("ref: unknown operator " + op)
}

func (m *machine) leaf(l *model.Leaf) bool {
	switch l.Kind {
	case model.LFlag, model.LDefeated:
		var set bool
		if l.Kind == model.LFlag {
			set = m.env.Flag(m.epoch, m.p.file.Sub(l.Name))
		} else {
			set = m.env.Trainer(m.epoch, m.p.file.Sub(l.Name))
		}
		switch l.Form {
		case model.FBare:
			return set
		case model.FNot:
			return !set
		}
		want := l.Val == "TRUE" || l.Val == "true"
		if l.Op == "==" {
			return set == want
		}
		return set != want
	}
	name := m.p.file.Sub(l.Name)
	if l.Kind == model.LAuto {
		// An AutoVar leaf behaves as if its command were executed immediately before
		// comparing its result var (C11).
		m.event(l.Auto)
		m.probe("autovar_leaf_evaluated")
		name = m.autoVarName(l.Auto)
	}
	v := m.env.Var(m.epoch, name)
	switch l.Form {
	case model.FBare:
		return v != m.env.Operand(m.epoch, "0", false)
	case model.FNot:
		return v == m.env.Operand(m.epoch, "0", false)
	}
	c := env.Cmp(v, m.env.Operand(m.epoch, m.p.file.Sub(l.Val), l.Strict))
	return env.CondTable[opIndex(l.Op)][c]
}

func (m *machine) autoVarName(c *model.Cmd) string {
	av := m.p.autov[c.Name]
	if av.ArgPos >= 0 {
		return m.p.file.Sub(PlainArg(&c.Args[av.ArgPos]))
	}
	return av.VarName
}

func (m *machine) eval(e *model.Expr) bool {
	switch e.Op {
	case model.OLeaf:
		return m.decide(m.leaf(e.Leaf))
	case model.ONot:
		return !m.eval(e.L)
	case model.OAnd:
		if !m.eval(e.L) {
			m.probe("and_short_circuit")
			return false
		}
		return m.eval(e.R)
	case model.OOr:
		if m.eval(e.L) {
			m.probe("or_short_circuit")
			return true
		}
		return m.eval(e.R)
	}
	panic("ref: bad expr")
}

// refKey is the exact state of the interpreter between two command events.
type refKey struct {
	node  int32
	depth int8
	stack [32]int32
}

func (m *machine) key(n *node) refKey {
	k := refKey{node: int32(n.id), depth: int8(len(m.stack))}
	for i, s := range m.stack {
		k.stack[i] = int32(s.id)
	}
	return k
}

func (m *machine) doReturn() *node {
	if len(m.stack) == 0 {
		return m.finish("return")
	}
	n := m.stack[len(m.stack)-1]
	m.stack = m.stack[:len(m.stack)-1]
	return n
}

func (m *machine) step(n *node) *node {
	switch n.kind {
	case nFallOff:
		return m.doReturn()
	case nNop:
		return n.next
	case nCmd:
		c := n.stmt.Cmd
		switch c.Name {
		case "end":
			if len(c.Args) == 0 {
				return m.finish("end")
			}
		case "return":
			if len(c.Args) == 0 {
				return m.doReturn()
			}
		case "goto":
			if len(c.Args) == 1 && c.Args[0].Kind == model.ArgPlain {
				l := env.Canon(m.p.file.Sub(PlainArg(&c.Args[0])))
				if t, ok := m.p.labels[l]; ok {
					m.probe("user_goto_internal")
					if t.loopDepth > n.loopDepth {
						m.probe("goto_into_loop_body")
					}
					if t.caseDepth > n.caseDepth {
						m.probe("goto_into_case_body")
					}
					if t.afterJump {
						m.probe("goto_to_label_after_break_or_terminator")
					}
					return t
				}
				return m.finish("exit(" + l + ")")
			}
		case "call":
			if len(c.Args) == 1 && c.Args[0].Kind == model.ArgPlain {
				l := env.Canon(m.p.file.Sub(PlainArg(&c.Args[0])))
				if t, ok := m.p.labels[l]; ok {
					if len(m.stack) >= m.lim.Stack || len(m.stack) >= 32 {
						return m.finish("overflow")
					}
					m.probe("user_call_internal")
					m.stack = append(m.stack, n.next)
					return t
				}
				// callee outside the file: one opaque event, then it returns
				m.event(c)
				return n.next
			}
		}
		m.event(c)
		return n.next
	case nIf:
		for i, c := range n.stmt.Conds {
			if m.eval(c) {
				return n.firsts[i]
			}
		}
		return n.els
	case nWhile:
		if n.caseDepth > 0 {
			m.probe("loop_inside_case_body")
		}
		if n.stmt.Cond == nil || m.eval(n.stmt.Cond) {
			return n.body
		}
		return n.next
	case nDoEntry:
		return n.body
	case nDoTest:
		if m.eval(n.stmt.Cond) {
			m.probe("dowhile_repeat")
			return n.body
		}
		return n.next
	case nJump:
		if n.stmt.K == model.KBreak {
			m.probe("break_executed")
			if n.fromSwitch {
				m.probe("break_leaves_switch")
				if n.loopDepth > 0 {
					m.probe("break_leaves_switch_inside_loop")
				}
			}
		} else {
			m.probe("continue_executed")
			if n.target != nil && n.target.kind == nDoEntry {
				m.probe("continue_in_dowhile")
			}
			if n.caseDepth > 0 {
				m.probe("continue_inside_switch_case")
			}
		}
		return n.target
	case nSwitch:
		sw := n.stmt.Sw
		name := m.p.file.Sub(sw.Var)
		if sw.Auto != nil {
			m.event(sw.Auto)
			m.probe("autovar_switch_evaluated")
			name = m.autoVarName(sw.Auto)
		}
		d := m.env.Var(m.epoch, name)
		sel := -1
		for i, c := range sw.Cases {
			if !c.Default && m.env.Operand(m.epoch, m.p.file.Sub(c.Value), false) == d {
				sel = i
				break
			}
		}
		if sel < 0 {
			for i, c := range sw.Cases {
				if c.Default {
					sel = i
					m.probe("switch_default_taken")
				}
			}
		}
		m.tr.Decisions++
		m.tr.Path = m.tr.Path*1099511628211 + uint64(sel+7)
		if sel < 0 {
			m.probe("switch_no_match_no_default")
			return n.next
		}
		// a case without a body shares the body of the next case that has one;
		// trailing body-less cases do nothing
		for j := sel; j < len(sw.Cases); j++ {
			if n.firsts[j] != nil {
				if j != sel {
					m.probe("switch_shared_body")
				}
				return n.firsts[j]
			}
		}
		m.probe("switch_trailing_empty")
		return n.next
	}
	panic("ref: bad node")
}

// Run executes the entry and returns its trace. probes may be nil.
func (p *Program) Run(entry string, e *env.Env, lim Limits, probes map[string]int) *trace.Trace {
	m := &machine{p: p, env: e, lim: lim, seen: map[refKey]struct{}{}, Probes: probes}
	n, ok := p.entries[entry]
	if !ok {
		m.tr.Finish = "fault: no such entry " + entry
		return &m.tr
	}
	for !m.done {
		if n == nil {
			panic("ref: nil continuation")
		}
		m.tr.Steps++
		if m.tr.Steps > lim.Steps || len(m.tr.Events) > lim.Events {
			m.tr.Finish = "budget"
			break
		}
		k := m.key(n)
		if _, dup := m.seen[k]; dup {
			m.tr.Finish = "hang"
			break
		}
		m.seen[k] = struct{}{}
		n = m.step(n)
	}
	return &m.tr
}

// Package gen is the seeded workload generator of the co-simulation engine: it draws
// model.File trees (DESIGN.md 4.2). Swarm style: every run first draws its own
// configuration (which constructs are enabled, sizes, probabilities).
package gen

import (
	"fmt"
	"strconv"
	"strings"

	"verifsim/internal/model"
	"verifsim/internal/rng"
)

type Profile string

const (
	PC01 Profile = "C01"
	PC02 Profile = "C02"
	PC03 Profile = "C03"
	PC11 Profile = "C11"
	PC05 Profile = "C05"
)

// Config is the per-run swarm configuration.
type Config struct {
	Profile   Profile
	MaxDepth  int
	MaxStmts  int // per block
	Budget    int // total statements per file (soft)
	MaxLeaves int
	MaxCases  int
	NScripts  int
	MapScr    bool
	Dom       int // var domain (values 0..Dom-1); case literals range a bit wider

	WCmd, WIf, WWhile, WInf, WDo, WSwitch, WLabel, WGoto, WCall, WEnd, WReturn, WBreak, WContinue, WPory int

	PElif, PElse    float64
	PText, PMoves   float64
	PAfterBreak     float64 // statements after a break in the same block
	PAutoLeaf       float64
	PAutoSwitch     float64
	PBigExpr        float64
	PRedundantParen float64
	PNotGroup       float64
	PExternal       float64 // goto/call target outside the file
	PEmptyCase      float64
	PDefault        float64
	PEmptyBody      float64
	PRepeatText     float64
	NFlags, NVars   int
	AutoVars        bool
	Big             bool // scale mode: long bodies, deep nesting, long elif chains, many cases / scripts / leaves
	MaxElif         int
	BigNumbers      bool // literals >= 256 / >= 65536, long identifiers
	Vals            []int
	PConst          float64 // probability that a name / literal is written through a constant
	DriveDeep       bool    // stress shape whose depth is only reached under a friendly game state
}

type gen struct {
	r        *rng.R
	c        *Config
	f        *model.File
	nCmd     int
	nLabel   int
	labels   []string
	hot      []string // labels written right after a break / end / return / goto
	usedCaps map[string]bool
	gotos    []*model.Cmd // goto/call commands whose target is resolved at the end
	left     int
	texts    []string
	autoCmds []string
	arithP   float64 // probability that a literal comparison / case value is written as arithmetic
}

func pick(r *rng.R, w []int) int {
	t := 0
	for _, x := range w {
		t += x
	}
	if t == 0 {
		return 0
	}
	n := r.Intn(t)
	for i, x := range w {
		if n < x {
			return i
		}
		n -= x
	}
	return 0
}

// DrawConfig draws the swarm configuration of one run.
func DrawConfig(r *rng.R, p Profile, thorough bool) *Config {
	c := &Config{Profile: p}
	on := func(prob float64, w int) int {
		if r.P(prob) {
			return w
		}
		return 0
	}
	c.MaxDepth = r.Range(1, 4)
	if thorough && r.P(0.3) {
		c.MaxDepth = r.Range(3, 7)
	}
	c.MaxStmts = r.Range(1, 5)
	c.Budget = r.Range(4, 40)
	if thorough && r.P(0.2) {
		c.Budget = r.Range(30, 90)
	}
	c.MaxLeaves = r.Range(1, 4)
	c.MaxCases = r.Range(1, 5)
	c.NScripts = 1
	if r.P(0.35) {
		c.NScripts = r.Range(2, 4)
	}
	c.MapScr = r.P(0.2)
	c.Dom = r.Range(2, 5)
	c.NFlags = r.Range(1, 4)
	c.NVars = r.Range(1, 3)
	c.WCmd = 10
	c.WIf = on(0.85, r.Range(2, 8))
	c.WWhile = on(0.6, r.Range(1, 5))
	c.WInf = on(0.35, r.Range(1, 3))
	c.WDo = on(0.5, r.Range(1, 4))
	c.WSwitch = on(0.35, r.Range(1, 3))
	c.WLabel = on(0.45, r.Range(1, 4))
	c.WGoto = on(0.4, r.Range(1, 3))
	c.WCall = on(0.25, r.Range(1, 2))
	c.WEnd = on(0.4, r.Range(1, 2))
	c.WReturn = on(0.4, r.Range(1, 2))
	c.WBreak = on(0.6, r.Range(1, 4))
	c.WContinue = on(0.6, r.Range(1, 4))
	c.WPory = on(0.3, r.Range(1, 3))
	c.PElif = r.Float() * 0.6
	c.PElse = r.Float()
	c.PText = on01(r, 0.3, 0.25)
	c.PMoves = on01(r, 0.2, 0.2)
	c.PAfterBreak = on01(r, 0.5, 0.4)
	c.PBigExpr = 0.15
	c.PRedundantParen = on01(r, 0.5, 0.2)
	c.PNotGroup = on01(r, 0.6, 0.25)
	c.PExternal = on01(r, 0.5, 0.3)
	c.PEmptyCase = on01(r, 0.6, 0.35)
	c.PDefault = r.Float()
	c.PEmptyBody = on01(r, 0.4, 0.15)
	c.PRepeatText = 0.3
	switch p {
	case PC01:
		c.MaxCases = r.Range(1, 3)
	case PC02:
		c.MaxLeaves = r.Range(2, 8)
		if thorough && r.P(0.3) {
			c.MaxLeaves = r.Range(6, 12)
		}
		c.PBigExpr = 0.9
		c.MaxDepth = r.Range(1, 2)
		c.Budget = r.Range(3, 12)
		c.WSwitch, c.WLabel, c.WGoto, c.WCall, c.WPory = 0, 0, 0, 0, 0
		c.NScripts = 1
		c.MapScr = false
		c.PText, c.PMoves = 0, 0
		c.NFlags = r.Range(1, 5)
		c.NVars = r.Range(1, 3)
	case PC03:
		c.WSwitch = r.Range(6, 14)
		c.MaxCases = r.Range(2, 8)
		c.MaxLeaves = r.Range(1, 2)
		c.Dom = r.Range(2, 6)
	case PC11:
		c.AutoVars = true
		c.PAutoLeaf = 0.25 + r.Float()*0.6
		c.PAutoSwitch = 0.5
		c.MaxLeaves = r.Range(1, 6)
		c.PBigExpr = 0.6
		c.WSwitch = on(0.6, r.Range(1, 4))
		c.PText = on01(r, 0.4, 0.3)
	case PC05:
		c.AutoVars = r.P(0.4)
		if c.AutoVars {
			c.PAutoLeaf = r.Float() * 0.5
			c.PAutoSwitch = 0.3
		}
		c.WSwitch = on(0.6, r.Range(1, 6))
		c.MaxCases = r.Range(1, 7)
		c.MaxLeaves = r.Range(1, 6)
		c.PBigExpr = 0.3
	}
	c.MaxElif = 3
	c.PConst = on01(r, 0.3, 0.4)
	c.BigNumbers = r.P(0.1)
	if c.BigNumbers {
		// var values and literals around the 8- and 16-bit boundaries
		// (not 0x4000-0x40FF / 0x8000-0x8015: a literal there is read as a variable by `compare`
		// and `case`, so two case lines could match at once and their order would matter)
		all := []int{0, 1, 2, 9, 10, 99, 100, 127, 128, 255, 256, 257, 1000, 32767, 32790, 65535, 65536, 65537, 70000}
		pm := r.Perm(len(all))
		k := r.Range(3, 8)
		for i := 0; i < k; i++ {
			c.Vals = append(c.Vals, all[pm[i]])
		}
	}
	pBig := 0.03
	if thorough {
		pBig = 0.08
	}
	if r.P(pBig) {
		// scale mode: thresholds (10 / 100 chunks, 16 statements, 5 elifs, 10 cases, 10 leaves,
		// 6 scripts, depth 6) are only crossed by big programs
		c.Big = true
		c.Budget = r.Range(80, 260)
		c.MaxStmts = r.Range(6, 24)
		c.MaxDepth = r.Range(4, 9)
		c.MaxElif = r.Range(4, 9)
		c.PElif = 0.5 + r.Float()*0.45
		c.MaxCases = r.Range(8, 14)
		c.Dom = r.Range(6, 12)
		if c.MaxLeaves < 14 && (p == PC02 || p == PC11 || r.P(0.3)) {
			c.MaxLeaves = r.Range(10, 16)
			c.PBigExpr = 0.5
		}
		c.NScripts = r.Range(1, 9)
		c.MapScr = r.P(0.5)
		if p == PC02 {
			c.NScripts = 1
			c.MapScr = false
			c.Budget = r.Range(20, 60)
		}
		c.PText = on01(r, 0.6, 0.5)
		c.PRepeatText = 0.1
	}
	return c
}

func on01(r *rng.R, prob, max float64) float64 {
	if r.P(prob) {
		return r.Float() * max
	}
	return 0
}

func indexOf(xs []string, x string) int {
	for i, y := range xs {
		if y == x {
			return i
		}
	}
	return 0
}

// StockAutoVarNames are command names of the command_config.json shipped with poryscript.
var StockAutoVarNames = []string{"specialvar", "checkcoins", "random", "checkitem", "getpartysize", "choosecontestmon", "msgbox", "multichoice", "yesnobox"}

// File draws one file from the configuration.
func File(r *rng.R, c *Config) *model.File {
	g := &gen{r: r, c: c, f: &model.File{}, left: c.Budget}
	if c.AutoVars {
		g.f.AutoVars = map[string]model.AutoVar{}
		n := r.Range(1, 3)
		// 3 files in 10 name their AutoVar commands after the stock command_config.json entries,
		// with a kind drawn independently of the stock one (seeded change C11-19: built-in defaults
		// merged field by field with the project's file)
		nr := r.Fork("avnames")
		stock := nr.P(0.3)
		perm := nr.Perm(len(StockAutoVarNames))
		for i := 0; i < n; i++ {
			name := fmt.Sprintf("av%d", i)
			if stock {
				name = StockAutoVarNames[perm[i]]
			}
			if r.P(0.5) {
				g.f.AutoVars[name] = model.AutoVar{VarName: []string{"VAR_RESULT", "VAR_0x8004", "VAR_TEMP_1"}[r.Intn(3)], ArgPos: -1}
			} else {
				g.f.AutoVars[name] = model.AutoVar{ArgPos: r.Intn(3)}
			}
			g.autoCmds = append(g.autoCmds, name)
		}
	}
	if ac := r.Fork("avcorner"); c.AutoVars {
		vars := []string{"VAR_RESULT", "VAR_0x8004", "VAR_TEMP_1"}
		if len(g.autoCmds) >= 2 && ac.P(0.12) {
			// two AutoVar commands whose names differ only in letter case, configured differently
			// (seeded change C11-26 folded the names to lower case)
			a, old := g.autoCmds[0], g.autoCmds[1]
			b := strings.ToUpper(a[:1]) + a[1:]
			av := g.f.AutoVars[old]
			delete(g.f.AutoVars, old)
			if av == g.f.AutoVars[a] {
				if av.ArgPos >= 0 {
					av = model.AutoVar{VarName: vars[ac.Intn(3)], ArgPos: -1}
				} else {
					av.VarName = vars[(indexOf(vars, av.VarName)+1+ac.Intn(2))%3]
				}
			}
			g.f.AutoVars[b] = av
			g.autoCmds[1] = b
		}
		if ac.P(0.08) {
			// a script constant spelled like a configured result var: the configuration names
			// the game's variable, not the script's constant (seeded change C11-27)
			for _, name := range g.autoCmds {
				if av := g.f.AutoVars[name]; av.ArgPos < 0 && av.VarName != "" {
					other := vars[(indexOf(vars, av.VarName)+1+ac.Intn(2))%3]
					g.f.Consts = append(g.f.Consts, model.ConstDef{Name: av.VarName, Val: []string{other}})
					break
				}
			}
		}
	}
	if ar := r.Fork("arithcfg"); ar.P(0.3) {
		g.arithP = 0.05 + 0.45*ar.Float()
	}
	ctx := bctx{}
	for i := 0; i < c.NScripts; i++ {
		s := &model.Script{Name: fmt.Sprintf("S%d", i)}
		if r.P(0.15) {
			s.Scope = r.Range(1, 2)
		}
		if !r.P(0.03) {
			s.Body = g.block(0, ctx, true)
		}
		g.f.Scripts = append(g.f.Scripts, s)
	}
	if c.MapScr {
		g.mapscripts()
	}
	g.resolveGotos()
	return g.f
}

type bctx struct {
	inLoop   bool // continue allowed
	inBreak  bool // break allowed (loop or switch)
	braceEnd bool // the block is closed by '}' (continue may be last)
}

func (g *gen) mapscripts() {
	r := g.r
	m := &model.MapScripts{Name: "Map0"}
	types := []string{"MAP_SCRIPT_ON_LOAD", "MAP_SCRIPT_ON_TRANSITION", "MAP_SCRIPT_ON_RESUME", "MAP_SCRIPT_ON_FRAME_TABLE", "MAP_SCRIPT_ON_WARP_INTO_MAP_TABLE"}
	n := r.Range(1, 4)
	perm := r.Perm(len(types))
	for i := 0; i < n; i++ {
		e := model.MSEntry{Type: types[perm[i]]}
		switch r.Intn(3) {
		case 0:
			e.Ref = g.someScriptName()
		case 1:
			e.Inline = true
			e.Body = g.block(0, bctx{}, true)
		default:
			e.IsTable = true
			k := r.Range(1, 3)
			for j := 0; j < k; j++ {
				t := model.TableEntry{Var: g.varName(), Val: fmt.Sprint(r.Intn(4))}
				if r.Bool() {
					t.Inline = true
					t.Body = g.block(0, bctx{}, true)
				} else {
					t.Ref = g.someScriptName()
				}
				e.Table = append(e.Table, t)
			}
		}
		m.Entries = append(m.Entries, e)
	}
	g.f.MapScripts = m
	g.f.MapFirst = r.Bool()
}

func (g *gen) someScriptName() string {
	if len(g.f.Scripts) > 0 && g.r.P(0.8) {
		return g.f.Scripts[g.r.Intn(len(g.f.Scripts))].Name
	}
	return fmt.Sprintf("Ext%d", g.r.Intn(3))
}

// long identifiers (> 32 characters) in big-number runs
const longTail = "_WITH_A_RATHER_LONG_NAME_THAT_GOES_ON_AND_ON"

func (g *gen) tail() string {
	if g.c.BigNumbers {
		return longTail
	}
	return ""
}

func (g *gen) flagName() string    { return fmt.Sprintf("FLAG_%c", 'A'+g.r.Intn(g.c.NFlags)) + g.tail() }
func (g *gen) trainerName() string { return fmt.Sprintf("TRAINER_%d", g.r.Intn(2)) + g.tail() }
func (g *gen) varName() string     { return fmt.Sprintf("VAR_%d", g.r.Intn(g.c.NVars)) + g.tail() }

func (g *gen) text() model.Arg {
	r := g.r
	a := model.Arg{Kind: model.ArgText}
	if len(g.texts) > 0 && r.P(g.c.PRepeatText) {
		a.Text = g.texts[r.Intn(len(g.texts))]
	} else {
		words := []string{"Hello", "there", "PLAYER", "{STR_VAR_1}", "you", "won", "x", "go on"}
		a.Text = words[r.Intn(len(words))] + fmt.Sprintf(" %d", len(g.texts))
		if g.c.BigNumbers && r.P(0.3) {
			// one very long word
			a.Text = fmt.Sprintf("%d", len(g.texts)) + strings.Repeat("W", r.Range(250, 300))
		}
		if r.P(0.2) {
			a.Text += "$"
		}
		g.texts = append(g.texts, a.Text)
	}
	switch r.Intn(8) {
	case 0:
		a.StrType = "ascii"
	case 1:
		a.StrType = "braille"
	case 2:
		a.StrType = "custom"
	}
	return a
}

func (g *gen) moves() model.Arg {
	r := g.r
	a := model.Arg{Kind: model.ArgMoves}
	steps := []string{"walk_up", "walk_down", "face_left", "delay_16", "delay_1", "delay_8", "jump_right"}
	n := r.Range(0, 3)
	for i := 0; i < n; i++ {
		m := model.Move{Name: steps[r.Intn(len(steps))]}
		if r.P(0.3) {
			m.Mul = []int{1, 2, 3, 6, 8}[r.Intn(5)]
		}
		a.Moves = append(a.Moves, m)
	}
	return a
}

func (g *gen) plainArg() model.Arg {
	r := g.r
	switch r.Intn(7) {
	case 0:
		return model.Arg{Toks: []string{g.viaConst(g.varName())}}
	case 1:
		return model.Arg{Toks: []string{g.viaConst(g.flagName())}}
	case 2:
		return model.Arg{Toks: []string{fmt.Sprint(r.Intn(100))}}
	case 3:
		return model.Arg{Toks: []string{"MSGBOX_YESNO"}}
	case 4:
		return model.Arg{Toks: []string{"BASE", "+", fmt.Sprint(r.Intn(9))}}
	case 5:
		return model.Arg{Toks: []string{fmt.Sprintf([]string{"0x%X", "0x%x"}[r.Intn(2)], r.Intn(65535))}}
	}
	return model.Arg{Toks: []string{"(", "A", "+", "1", ")", "*", "2"}}
}

// command draws an opaque command; every occurrence is unique (attributable).
func (g *gen) command() *model.Cmd {
	r := g.r
	g.nCmd++
	id := g.nCmd
	if r.P(0.45) {
		return &model.Cmd{Name: fmt.Sprintf("c%d", id), Paren: r.P(0.1)}
	}
	c := &model.Cmd{Name: []string{"op", "msg", "setv", "apply"}[r.Intn(4)]}
	c.Args = append(c.Args, model.Arg{Toks: []string{fmt.Sprintf("N%d", id)}})
	n := r.Intn(3)
	if (g.c.Big || g.c.BigNumbers) && r.P(0.2) {
		n = r.Range(7, 12)
	}
	for i := 0; i < n; i++ {
		switch {
		case r.P(g.c.PText):
			c.Args = append(c.Args, g.text())
		case r.P(g.c.PMoves):
			c.Args = append(c.Args, g.moves())
		default:
			c.Args = append(c.Args, g.plainArg())
		}
	}
	if r.P(0.3) {
		// unique id not always first
		k := r.Intn(len(c.Args))
		c.Args[0], c.Args[k] = c.Args[k], c.Args[0]
	}
	return c
}

// autoCmd draws an AutoVar command usable as a var operand.
func (g *gen) autoCmd() *model.Cmd {
	r := g.r
	name := g.autoCmds[r.Intn(len(g.autoCmds))]
	av := g.f.AutoVars[name]
	g.nCmd++
	c := &model.Cmd{Name: name}
	nargs := r.Intn(3)
	if (g.c.Big || g.c.BigNumbers) && r.P(0.25) {
		nargs = r.Range(8, 12)
	}
	if av.ArgPos >= 0 && nargs < av.ArgPos+1 {
		nargs = av.ArgPos + 1 + r.Intn(2)
	}
	for i := 0; i < nargs; i++ {
		if av.ArgPos == i {
			c.Args = append(c.Args, model.Arg{Toks: []string{g.varName()}})
			switch r.Intn(10) {
			case 0, 1:
				c.Args[i] = model.Arg{Toks: []string{"VAR_RESULT"}}
			case 2:
				// the argument that names the result var is written through a constant
				keep := g.c.PConst
				g.c.PConst = 1
				c.Args[i] = model.Arg{Toks: []string{g.viaConst(g.varName())}}
				g.c.PConst = keep
			case 3:
				// ... or is made of several tokens: the compared var is the whole rendered argument
				c.Args[i] = model.Arg{Toks: []string{g.varName(), "+", fmt.Sprint(r.Intn(3))}}
			case 4:
				c.Args[i] = model.Arg{Toks: []string{"(", g.varName(), ")"}}
			}
		} else if i == nargs-1 || r.P(0.5) {
			c.Args = append(c.Args, model.Arg{Toks: []string{fmt.Sprintf("N%d", g.nCmd)}})
		} else if r.P(g.c.PText) {
			c.Args = append(c.Args, g.text())
		} else {
			c.Args = append(c.Args, g.plainArg())
		}
	}
	return c
}

// lit draws an integer literal from the run's value alphabet.
// maybeArith writes v as an arithmetic expression over integer literals ("a + b * c" ...): the
// compiler passes such operands through token by token and the assembler computes them with the
// usual precedence (seeded change C03-19 folded them left to right). The decision and the
// shape come from a forked stream, so files without arithmetic are generated as before.
//
// The operand right of a '-' is always decimal: written without blanks, "-0x5" is lexed by
// poryscript as "-0" and "x5" (a limitation outside the claimed properties).
func (g *gen) maybeArith(v int) (string, bool) {
	if g.arithP <= 0 || v < 0 {
		return "", false
	}
	nr := g.r.Fork("arith")
	if !nr.P(g.arithP) {
		return "", false
	}
	num := func(n int) string {
		if nr.P(0.2) {
			return fmt.Sprintf("0x%X", n)
		}
		return fmt.Sprint(n)
	}
	b, c := nr.Range(2, 5), nr.Range(2, 4)
	form := nr.Intn(6)
	if b*c > v && (form == 0 || form == 2) {
		form = 1
	}
	switch form {
	case 0:
		return fmt.Sprintf("%s + %s * %s", num(v-b*c), num(b), num(c)), true
	case 1:
		return fmt.Sprintf("%s - %d * %s", num(v+b*c), b, num(c)), true
	case 2:
		return fmt.Sprintf("%s * %s + %s", num(b), num(c), num(v-b*c)), true
	case 3:
		if b <= v {
			return fmt.Sprintf("%s + %s", num(v-b), num(b)), true
		}
		return fmt.Sprintf("%s - %d", num(v+b), b), true
	case 4:
		return fmt.Sprintf("%s - %d", num(v+b), b), true
	}
	// three terms, the product in the middle
	return fmt.Sprintf("%s + %s * %s - %d", num(v+c), num(b), num(c), b*c+c), true
}

func (g *gen) maybeArithText(lit string) (string, bool) {
	n, err := strconv.ParseInt(lit, 0, 32)
	if err != nil {
		return "", false
	}
	return g.maybeArith(int(n))
}

func (g *gen) lit() string {
	r := g.r
	if len(g.c.Vals) > 0 {
		v := g.c.Vals[r.Intn(len(g.c.Vals))]
		if r.P(0.2) {
			return fmt.Sprintf("0x%X", v)
		}
		return fmt.Sprint(v)
	}
	return fmt.Sprint(r.Intn(g.c.Dom + 1))
}

func (g *gen) leaf() *model.Leaf {
	r := g.r
	l := &model.Leaf{}
	useAuto := g.c.AutoVars && len(g.autoCmds) > 0 && r.P(g.c.PAutoLeaf)
	k := r.Intn(10)
	switch {
	case useAuto:
		l.Kind = model.LAuto
		l.Auto = g.autoCmd()
	case k < 4:
		l.Kind = model.LFlag
		l.Name = g.viaConst(g.flagName())
	case k < 5:
		l.Kind = model.LDefeated
		l.Name = g.viaConst(g.trainerName())
	default:
		l.Kind = model.LVar
		l.Name = g.viaConst(g.varName())
	}
	switch r.Intn(4) {
	case 0:
		l.Form = model.FBare
	case 1:
		l.Form = model.FNot
	default:
		l.Form = model.FOp
	}
	if l.Form == model.FOp {
		if l.Kind == model.LFlag || l.Kind == model.LDefeated {
			l.Op = "=="
			if r.P(0.15) {
				l.Op = "!="
			}
			l.Val = []string{"TRUE", "FALSE", "true", "false"}[r.Intn(4)]
		} else {
			l.Op = []string{"==", "!=", "<", "<=", ">", ">="}[r.Intn(6)]
			switch r.Intn(11) {
			case 10:
				// the README's AutoVar example: checkitem(...) == TRUE
				l.Val = []string{"TRUE", "FALSE"}[r.Intn(2)]
			case 0:
				l.Val = g.viaConst(g.varName())
			case 1:
				l.Val = fmt.Sprintf("CONST_%d", r.Intn(3))
			case 2:
				l.Strict = true
				l.Val = fmt.Sprintf("0x40%02X", r.Intn(3))
			case 3:
				l.Strict = true
				lt := g.lit()
				l.Val = g.viaConst(lt)
				if a, ok := g.maybeArithText(lt); ok {
					l.Val = a
				}
			case 4:
				l.Val = fmt.Sprintf("0x40%02X", r.Intn(3))
			case 5:
				l.Val = fmt.Sprintf("CONST_%d + %d", r.Intn(3), r.Intn(3))
			default:
				lt := g.lit()
				l.Val = g.viaConst(lt)
				if a, ok := g.maybeArithText(lt); ok {
					l.Val = a
				}
			}
		}
	}
	return l
}

func (g *gen) exprN(n int) *model.Expr {
	r := g.r
	var e *model.Expr
	if n <= 1 {
		e = &model.Expr{Op: model.OLeaf, Leaf: g.leaf()}
	} else {
		k := r.Range(1, n-1)
		op := model.OAnd
		if r.Bool() {
			op = model.OOr
		}
		e = &model.Expr{Op: op, L: g.exprN(k), R: g.exprN(n - k)}
	}
	if n > 1 && r.P(g.c.PNotGroup) || n == 1 && r.P(g.c.PNotGroup*0.3) {
		e = &model.Expr{Op: model.ONot, L: e}
	}
	if r.P(g.c.PRedundantParen) {
		e.Parens = 1
		if r.P(0.2) {
			e.Parens = 2
		}
	}
	return e
}

func (g *gen) expr() *model.Expr {
	n := 1
	if g.r.P(g.c.PBigExpr) {
		n = g.r.Range(2, g.c.MaxLeaves)
	} else if g.r.P(0.3) {
		n = g.r.Range(1, min(2, g.c.MaxLeaves))
	}
	if n < 1 {
		n = 1
	}
	return g.exprN(n)
}

func min(a, b int) int {
	if a < b {
		return a
	}
	return b
}

func (g *gen) block(depth int, ctx bctx, brace bool) []*model.Stmt {
	r := g.r
	c := g.c
	ctx.braceEnd = brace
	if depth > 0 && r.P(c.PEmptyBody) {
		return nil
	}
	n := r.Range(1, c.MaxStmts)
	var out []*model.Stmt
	for i := 0; i < n && g.left > 0; i++ {
		g.left--
		w := []int{c.WCmd, c.WIf, c.WWhile, c.WInf, c.WDo, c.WSwitch, c.WLabel, c.WGoto, c.WCall, c.WEnd, c.WReturn, c.WBreak, c.WContinue, c.WPory}
		if depth >= c.MaxDepth {
			w[1], w[2], w[3], w[4], w[5], w[13] = 0, 0, 0, 0, 0, 0
		}
		if !ctx.inBreak {
			w[11] = 0
		}
		if !ctx.inLoop || !ctx.braceEnd {
			w[12] = 0
		}
		// terminators are more likely near the end of a block
		if i < n-1 {
			w[9] /= 2
			w[10] /= 2
		}
		switch pick(r, w) {
		case 0:
			out = append(out, &model.Stmt{K: model.KCmd, Cmd: g.command()})
		case 1:
			s := &model.Stmt{K: model.KIf}
			s.Conds = append(s.Conds, g.expr())
			s.Bodies = append(s.Bodies, g.block(depth+1, ctx, true))
			for r.P(c.PElif) && len(s.Conds) <= c.MaxElif {
				if r.P(0.2) {
					// a sibling condition that differs from an earlier one of the chain in one
					// detail only (or not at all): anything keyed on a rendering of the condition
					// must keep them apart
					s.Conds = append(s.Conds, g.nearCopy(s.Conds[r.Intn(len(s.Conds))]))
				} else {
					s.Conds = append(s.Conds, g.expr())
				}
				s.Bodies = append(s.Bodies, g.block(depth+1, ctx, true))
			}
			if r.P(c.PElse) {
				s.HasElse = true
				s.Else = g.block(depth+1, ctx, true)
			}
			out = append(out, s)
		case 2:
			s := &model.Stmt{K: model.KWhile, Cond: g.expr()}
			s.Body = g.block(depth+1, bctx{inLoop: true, inBreak: true}, true)
			out = append(out, s)
		case 3:
			s := &model.Stmt{K: model.KWhile}
			s.Body = g.block(depth+1, bctx{inLoop: true, inBreak: true}, true)
			// make an exit likely
			if r.P(0.85) {
				exit := &model.Stmt{K: model.KIf, Conds: []*model.Expr{g.expr()}}
				var b *model.Stmt
				switch r.Intn(4) {
				case 0:
					b = &model.Stmt{K: model.KCmd, Cmd: &model.Cmd{Name: "end"}}
				case 1:
					b = &model.Stmt{K: model.KCmd, Cmd: &model.Cmd{Name: "return"}}
				default:
					b = &model.Stmt{K: model.KBreak}
				}
				exit.Bodies = [][]*model.Stmt{{b}}
				pos := r.Intn(len(s.Body) + 1)
				if pos == len(s.Body) && len(s.Body) > 0 && s.Body[len(s.Body)-1].K == model.KContinue {
					pos = len(s.Body) - 1
				}
				s.Body = append(s.Body[:pos:pos], append([]*model.Stmt{exit}, s.Body[pos:]...)...)
			}
			out = append(out, s)
		case 4:
			s := &model.Stmt{K: model.KDoWhile, Cond: g.expr()}
			s.Body = g.block(depth+1, bctx{inLoop: true, inBreak: true}, true)
			out = append(out, s)
		case 5:
			out = append(out, g.switchStmt(depth, ctx))
		case 6:
			g.nLabel++
			l := fmt.Sprintf("L%d", g.nLabel)
			if r.P(0.06) {
				// an all-caps identifier that spells a keyword is an ordinary identifier
				if n := capsPool[r.Intn(len(capsPool))]; !g.usedCaps[n] {
					if g.usedCaps == nil {
						g.usedCaps = map[string]bool{}
					}
					g.usedCaps[n] = true
					l = n
				}
			}
			g.labels = append(g.labels, l)
			s := &model.Stmt{K: model.KLabel, Label: l}
			if r.P(0.2) {
				s.Global = r.Range(1, 2)
			}
			if len(out) > 0 {
				if p := out[len(out)-1]; p.K == model.KBreak || p.K == model.KCmd && (p.Cmd.Name == "end" || p.Cmd.Name == "return" || p.Cmd.Name == "goto") {
					g.hot = append(g.hot, l)
				}
			}
			out = append(out, s)
		case 7, 8:
			name := "goto"
			if pick(r, []int{c.WGoto, c.WCall}) == 1 {
				name = "call"
			}
			cmd := &model.Cmd{Name: name, Args: []model.Arg{{Toks: []string{"?"}}}}
			g.gotos = append(g.gotos, cmd)
			out = append(out, &model.Stmt{K: model.KCmd, Cmd: cmd})
		case 9:
			out = append(out, &model.Stmt{K: model.KCmd, Cmd: &model.Cmd{Name: "end"}})
		case 10:
			out = append(out, &model.Stmt{K: model.KCmd, Cmd: &model.Cmd{Name: "return"}})
		case 11:
			out = append(out, &model.Stmt{K: model.KBreak})
			if !r.P(c.PAfterBreak) {
				return out
			}
			if c.WLabel > 0 && r.P(0.5) {
				// unreachable by fall-through, reachable by goto: a label right after the break
				g.nLabel++
				l := fmt.Sprintf("L%d", g.nLabel)
				g.labels = append(g.labels, l)
				g.hot = append(g.hot, l)
				out = append(out, &model.Stmt{K: model.KLabel, Label: l})
			}
		case 13:
			out = append(out, g.poryStmt(depth, ctx))
		case 12:
			if i == n-1 || r.P(0.7) {
				out = append(out, &model.Stmt{K: model.KContinue})
				return out
			}
			out = append(out, &model.Stmt{K: model.KCmd, Cmd: g.command()})
		}
	}
	return out
}

func (g *gen) switchStmt(depth int, ctx bctx) *model.Stmt {
	r := g.r
	c := g.c
	sw := &model.Switch{}
	if c.AutoVars && len(g.autoCmds) > 0 && r.P(c.PAutoSwitch) {
		sw.Auto = g.autoCmd()
	} else {
		sw.Var = g.viaConst(g.varName())
	}
	n := r.Range(1, c.MaxCases)
	if n > c.Dom+3 {
		n = c.Dom + 3
	}
	if len(c.Vals) > 0 && n > len(c.Vals)+2 {
		n = len(c.Vals) + 2
	}
	hasDefault := r.P(c.PDefault)
	if r.P(0.06) {
		// a switch with nothing but a default case
		n = 0
		hasDefault = true
	}
	defPos := -1
	if hasDefault {
		defPos = r.Intn(n + 1)
		if r.P(0.4) {
			defPos = n // the conventional place: last
		}
	}
	vals := r.Perm(c.Dom + 3)
	if len(c.Vals) > 0 {
		vals = r.Perm(len(c.Vals) + 2)
	}
	vi := 0
	total := n
	if hasDefault {
		total = n + 1
	}
	inner := bctx{inLoop: ctx.inLoop, inBreak: true}
	for i := 0; i < total; i++ {
		cs := &model.Case{}
		if i == defPos {
			cs.Default = true
		} else {
			v := vals[vi%len(vals)]
			vi++
			if len(c.Vals) > 0 {
				// index into the value alphabet (distinct indexes -> distinct values); beyond it, unused values
				if v < len(c.Vals) {
					v = c.Vals[v]
				} else {
					v = 100000 + v
				}
			}
			cs.Value = fmt.Sprint(v)
			if r.P(0.15) {
				cs.Value = fmt.Sprintf([]string{"0x%X", "0x%x", "0x%02x"}[r.Intn(3)], v)
			}
			cs.Value = g.viaConst(cs.Value)
			if a, ok := g.maybeArith(v); ok {
				cs.Value = a
			}
		}
		if !r.P(c.PEmptyCase) {
			// the last case body is closed by '}', so 'continue' may be its last statement
			cs.Body = g.block(depth+1, inner, i == total-1)
		}
		sw.Cases = append(sw.Cases, cs)
	}
	return &model.Stmt{K: model.KSwitch, Sw: sw}
}

func (g *gen) resolveGotos() {
	r := g.r
	var targets []string
	targets = append(targets, g.labels...)
	for _, s := range g.f.Scripts {
		targets = append(targets, s.Name)
	}
	for _, c := range g.gotos {
		if len(targets) == 0 || r.P(g.c.PExternal) {
			c.Args[0].Toks = []string{fmt.Sprintf("Ext%d", r.Intn(3))}
		} else if len(g.hot) > 0 && r.P(0.35) {
			c.Args[0].Toks = []string{g.viaConst(g.hot[r.Intn(len(g.hot))])}
		} else if len(g.labels) > 0 && r.P(0.75) {
			c.Args[0].Toks = []string{g.labels[r.Intn(len(g.labels))]}
		} else {
			c.Args[0].Toks = []string{targets[r.Intn(len(targets))]}
		}
	}
}

var poryKeys = []string{"GAME", "LANG"}
var poryVals = map[string][]string{"GAME": {"RUBY", "SAPPHIRE", "EMERALD"}, "LANG": {"EN", "DE"}}

// poryStmt draws a poryswitch statement; the file's switch values are fixed on first use.
func (g *gen) poryStmt(depth int, ctx bctx) *model.Stmt {
	r := g.r
	if g.f.Switches == nil {
		g.f.Switches = map[string]string{}
		for _, k := range poryKeys {
			vs := poryVals[k]
			g.f.Switches[k] = vs[r.Intn(len(vs))]
			if r.P(0.15) {
				g.f.Switches[k] = "OTHER"
			}
		}
	}
	key := poryKeys[r.Intn(len(poryKeys))]
	s := &model.Stmt{K: model.KPory, PKey: key}
	vals := poryVals[key]
	perm := r.Perm(len(vals))
	n := r.Range(1, len(vals))
	hasCur := false
	for i := 0; i < n; i++ {
		v := vals[perm[i]]
		if v == g.f.Switches[key] {
			hasCur = true
		}
		s.PCases = append(s.PCases, g.poryCase(v, depth, ctx))
	}
	if !hasCur || r.P(0.4) {
		s.PCases = append(s.PCases, g.poryCase("_", depth, ctx))
	}
	return s
}

func (g *gen) poryCase(val string, depth int, ctx bctx) *model.PCase {
	r := g.r
	c := &model.PCase{Val: val}
	if r.Bool() {
		c.Brace = true
		c.Body = g.block(depth+1, ctx, true)
		return c
	}
	// ':' form: exactly one statement; keep to statement kinds that stand alone
	var st *model.Stmt
	for tries := 0; tries < 8 && st == nil; tries++ {
		b := g.block(depth+1, bctx{inLoop: ctx.inLoop, inBreak: ctx.inBreak}, false)
		for _, x := range b {
			switch x.K {
			case model.KCmd, model.KIf, model.KWhile, model.KDoWhile, model.KSwitch:
				st = x
			}
			if st != nil {
				break
			}
		}
	}
	if st == nil {
		st = &model.Stmt{K: model.KCmd, Cmd: g.command()}
	}
	c.Body = []*model.Stmt{st}
	return c
}

func cloneCmd(c *model.Cmd) *model.Cmd {
	if c == nil {
		return nil
	}
	d := &model.Cmd{Name: c.Name, Paren: c.Paren}
	for _, a := range c.Args {
		b := a
		b.Toks = append([]string(nil), a.Toks...)
		b.Moves = append([]model.Move(nil), a.Moves...)
		d.Args = append(d.Args, b)
	}
	return d
}

func cloneExpr(e *model.Expr) *model.Expr {
	if e == nil {
		return nil
	}
	d := &model.Expr{Op: e.Op, Parens: e.Parens, L: cloneExpr(e.L), R: cloneExpr(e.R)}
	if e.Leaf != nil {
		l := *e.Leaf
		l.Auto = cloneCmd(e.Leaf.Auto)
		d.Leaf = &l
	}
	return d
}

func leavesOf(e *model.Expr, out *[]*model.Leaf) {
	if e == nil {
		return
	}
	if e.Leaf != nil {
		*out = append(*out, e.Leaf)
	}
	leavesOf(e.L, out)
	leavesOf(e.R, out)
}

// nearCopy clones a condition and changes at most one detail of one leaf.
func (g *gen) nearCopy(e *model.Expr) *model.Expr {
	r := g.r
	d := cloneExpr(e)
	var ls []*model.Leaf
	leavesOf(d, &ls)
	if len(ls) == 0 || r.P(0.15) {
		return d
	}
	l := ls[r.Intn(len(ls))]
	switch {
	case l.Kind == model.LAuto:
		// same command, another argument
		for i := range l.Auto.Args {
			a := &l.Auto.Args[i]
			if a.Kind == model.ArgPlain && len(a.Toks) == 1 && len(a.Toks[0]) > 1 && a.Toks[0][0] == 'N' {
				g.nCmd++
				a.Toks[0] = fmt.Sprintf("N%d", g.nCmd)
				return d
			}
		}
		if len(l.Auto.Args) == 0 {
			break
		}
		fallthrough
	case l.Kind == model.LVar && l.Form == model.FOp:
		if len(l.Val) > 0 && !containsSpace(l.Val) && r.Bool() {
			l.Strict = !l.Strict
		} else {
			l.Op = []string{"==", "!=", "<", "<=", ">", ">="}[r.Intn(6)]
		}
	case l.Form == model.FBare:
		l.Form = model.FNot
	case l.Form == model.FNot:
		l.Form = model.FBare
	default:
		if l.Op == "==" {
			l.Op = "!="
		} else {
			l.Op = "=="
		}
	}
	return d
}

func containsSpace(s string) bool {
	for _, c := range s {
		if c == ' ' {
			return true
		}
	}
	return false
}

// ---------------------------------------------------------------------------------
// Stress shapes: programs built to cross thresholds that random growth rarely reaches
// (nesting depth >= 9, >= 65 cases, >= 18 leaves, >= 100 chunks, long elif chains).

// StressFile draws one stress-shaped file. The rest of the configuration (names, leaf
// forms, AutoVars ...) comes from c.
func StressFile(r *rng.R, c *Config) *model.File {
	g := &gen{r: r, c: c, f: &model.File{}, left: 1 << 30}
	if c.AutoVars {
		g.f.AutoVars = map[string]model.AutoVar{}
		g.f.AutoVars["av0"] = model.AutoVar{VarName: "VAR_RESULT", ArgPos: -1}
		g.f.AutoVars["av1"] = model.AutoVar{ArgPos: 0}
		g.autoCmds = []string{"av0", "av1"}
	}
	cmd := func() *model.Stmt { return &model.Stmt{K: model.KCmd, Cmd: g.command()} }
	small := func() *model.Expr { return g.exprN(r.Range(1, 2)) }
	var body []*model.Stmt
	switch r.Intn(6) {
	case 0:
		// deep nest of breakable scopes with sibling scopes and jumps at every level
		depth := r.Range(6, 16)
		c.DriveDeep = true
		// per-file mix of scope kinds: some nests are nearly all switches, some nearly all loops
		kindW := []int{r.Intn(4), r.Intn(3), r.Intn(2), r.Intn(5)}
		if kindW[0]+kindW[1]+kindW[3] == 0 {
			kindW[3] = 1
		}
		plain := small
		small = func() *model.Expr {
			// mostly bare flags, so that a game state with most flags set walks down the nest
			if r.P(0.8) {
				return &model.Expr{Op: model.OLeaf, Leaf: &model.Leaf{Kind: model.LFlag, Name: g.flagName(), Form: model.FBare}}
			}
			return plain()
		}
		nodes := r.Range(60, 220) // size cap: the nest is deep, not bushy
		var build func(d int, inLoop bool) []*model.Stmt
		build = func(d int, inLoop bool) []*model.Stmt {
			out := []*model.Stmt{cmd()}
			nodes--
			if d == 0 || nodes <= 0 {
				if r.Bool() {
					out = append(out, &model.Stmt{K: model.KBreak})
				} else if inLoop {
					out = append(out, &model.Stmt{K: model.KContinue})
				}
				return out
			}
			sibs := 1
			if r.P(0.25) && nodes > 40 {
				sibs = 2
			}
			for s := 0; s < sibs; s++ {
				var st *model.Stmt
				switch pick(r, kindW) {
				case 0:
					st = &model.Stmt{K: model.KWhile, Cond: small(), Body: build(d-1, true)}
				case 1:
					st = &model.Stmt{K: model.KDoWhile, Cond: small(), Body: build(d-1, true)}
				case 2:
					// an 'if' is not a break-able scope: it does not count towards the depth
					st = &model.Stmt{K: model.KIf, Conds: []*model.Expr{small()}, Bodies: [][]*model.Stmt{build(d, inLoop)}}
					if r.Bool() {
						st.HasElse = true
						st.Else = []*model.Stmt{cmd()}
					}
				default:
					sw := &model.Switch{Var: g.varName()}
					// (the nested body may end in 'continue', which must be the last statement
					// before '}': the case that holds it is written last)
					if r.Bool() {
						sw.Cases = append(sw.Cases, &model.Case{Default: true, Body: []*model.Stmt{cmd()}})
					}
					if r.P(0.3) {
						sw.Cases = append(sw.Cases, &model.Case{Value: "2"})
					}
					sw.Cases = append(sw.Cases, &model.Case{Value: "1", Body: build(d-1, inLoop)})
					st = &model.Stmt{K: model.KSwitch, Sw: sw}
				}
				out = append(out, st)
				if r.P(0.3) {
					out = append(out, cmd())
				}
			}
			if r.P(0.3) {
				// a jump after the nested scopes of this level (binds to THIS level's scope)
				if r.Bool() && (inLoop || d < depth) {
					if d < depth {
						out = append(out, &model.Stmt{K: model.KIf, Conds: []*model.Expr{small()}, Bodies: [][]*model.Stmt{{&model.Stmt{K: model.KBreak}}}})
					}
				} else if inLoop {
					out = append(out, &model.Stmt{K: model.KIf, Conds: []*model.Expr{small()}, Bodies: [][]*model.Stmt{{&model.Stmt{K: model.KContinue}}}})
				}
			}
			return out
		}
		// the outermost level must be a loop so that break/continue always have a scope
		body = []*model.Stmt{{K: model.KWhile, Cond: small(), Body: build(depth-1, true)}, cmd()}
	case 1:
		// wide switch
		n := r.Range(20, 90)
		sw := &model.Switch{Var: g.varName()}
		def := -1
		if r.P(0.7) {
			def = r.Intn(n + 1)
		}
		pEmpty := r.Float() * 0.7
		for i := 0; i <= n; i++ {
			cs := &model.Case{}
			if i == def {
				cs.Default = true
			} else if i == n && def < 0 {
				break
			} else {
				cs.Value = fmt.Sprint(i)
			}
			if !r.P(pEmpty) {
				cs.Body = []*model.Stmt{cmd()}
				if r.P(0.2) {
					cs.Body = append(cs.Body, &model.Stmt{K: model.KBreak})
				}
			}
			sw.Cases = append(sw.Cases, cs)
		}
		c.Dom = n + 2
		c.Vals = nil
		body = []*model.Stmt{cmd(), {K: model.KSwitch, Sw: sw}, cmd()}
	case 2:
		// long boolean chain with mixed operators and right / left nesting
		n := r.Range(12, 30)
		var e *model.Expr
		switch r.Intn(3) {
		case 0:
			e = g.exprN(n)
		case 1:
			// right spine: a1 op (a2 op (a3 ...)) printed without redundant parentheses where possible
			e = &model.Expr{Op: model.OLeaf, Leaf: g.leaf()}
			for i := 1; i < n; i++ {
				op := model.OOr
				if r.P(0.3) {
					op = model.OAnd
				}
				e = &model.Expr{Op: op, L: &model.Expr{Op: model.OLeaf, Leaf: g.leaf()}, R: e}
			}
		default:
			e = &model.Expr{Op: model.OLeaf, Leaf: g.leaf()}
			for i := 1; i < n; i++ {
				op := model.OOr
				if r.P(0.3) {
					op = model.OAnd
				}
				e = &model.Expr{Op: op, L: e, R: &model.Expr{Op: model.OLeaf, Leaf: g.leaf()}}
			}
		}
		st := &model.Stmt{K: model.KIf, Conds: []*model.Expr{e}, Bodies: [][]*model.Stmt{{cmd()}}, HasElse: true, Else: []*model.Stmt{cmd()}}
		if r.P(0.3) {
			st = &model.Stmt{K: model.KWhile, Cond: e, Body: []*model.Stmt{cmd()}}
		}
		body = []*model.Stmt{st, cmd()}
	case 3:
		// long elif chain
		n := r.Range(6, 24)
		st := &model.Stmt{K: model.KIf}
		for i := 0; i < n; i++ {
			st.Conds = append(st.Conds, small())
			if r.P(0.15) {
				st.Bodies = append(st.Bodies, nil)
			} else {
				st.Bodies = append(st.Bodies, []*model.Stmt{cmd()})
			}
		}
		if r.Bool() {
			st.HasElse = true
			st.Else = []*model.Stmt{cmd()}
		}
		body = []*model.Stmt{st, cmd()}
	case 4:
		// many sequential constructs: scripts that split into > 64, > 128 chunks
		n := r.Range(20, 70)
		for i := 0; i < n; i++ {
			switch r.Intn(4) {
			case 0:
				body = append(body, &model.Stmt{K: model.KIf, Conds: []*model.Expr{small()}, Bodies: [][]*model.Stmt{{cmd()}}})
			case 1:
				body = append(body, &model.Stmt{K: model.KIf, Conds: []*model.Expr{small()}, Bodies: [][]*model.Stmt{{cmd()}}, HasElse: true, Else: []*model.Stmt{cmd()}})
			case 2:
				body = append(body, &model.Stmt{K: model.KWhile, Cond: small(), Body: []*model.Stmt{cmd()}})
			default:
				body = append(body, cmd())
			}
		}
	default:
		// many scripts, each with some control flow and hoisted data (counters, labels >= 10)
		n := r.Range(6, 14)
		for i := 0; i < n; i++ {
			b := []*model.Stmt{cmd(), {K: model.KIf, Conds: []*model.Expr{small()}, Bodies: [][]*model.Stmt{{cmd()}}}}
			g.f.Scripts = append(g.f.Scripts, &model.Script{Name: fmt.Sprintf("S%d", i), Body: b})
		}
		return g.f
	}
	g.f.Scripts = []*model.Script{{Name: "S0", Body: body}}
	if r.P(0.3) {
		// a second copy of the shape in another script: per-script state must not leak
		g.f.Scripts = append(g.f.Scripts, &model.Script{Name: "S1", Body: body})
	}
	return g.f
}

var capsPool = []string{"DEFAULT", "CASE", "BREAK", "CONTINUE", "IF", "ELSE", "ELIF", "DO", "WHILE", "SWITCH", "SCRIPT", "TEXT", "RAW", "VAR", "FLAG", "VALUE", "MOVES", "FORMAT", "GLOBAL", "LOCAL", "END", "RETURN", "PORYSWITCH", "CONST", "Default", "Case"}

// viaConst returns tok, or with probability PConst the name of a constant defined as tok
// (an existing one with that value, a new one, or an alias of an existing one).
func (g *gen) viaConst(tok string) string {
	r := g.r
	if g.c.PConst <= 0 || !r.P(g.c.PConst) {
		return tok
	}
	var same []string
	for _, c := range g.f.Consts {
		if len(c.Val) == 1 && c.Val[0] == tok {
			same = append(same, c.Name)
		}
	}
	if len(same) > 0 && r.P(0.6) {
		return same[r.Intn(len(same))]
	}
	name := fmt.Sprintf("K%d", len(g.f.Consts))
	def := model.ConstDef{Name: name, Val: []string{tok}}
	if len(same) > 0 {
		def.Src = []string{same[r.Intn(len(same))]} // defined from another constant
	}
	g.f.Consts = append(g.f.Consts, def)
	return name
}

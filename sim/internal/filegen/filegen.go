// Package filegen is the full-feature workload generator of the history (C17) and fault
// (C18) engines: syntactically well-formed Poryscript files using every top-level
// statement kind, inline text, format(), moves(), poryswitch, const and AutoVar
// commands. It works at the lexeme level; no semantics is attached to its output.
package filegen

import (
	"encoding/json"
	"fmt"
	"sort"
	"strings"

	"verifsim/internal/gen"
	"verifsim/internal/model"
	"verifsim/internal/rng"
)

// Item is one top-level statement.
type Item struct {
	Kind string   `json:"kind"` // script text movement mart mapscripts raw const
	Name string   `json:"name"`
	Toks []string `json:"toks"`
	// Uses lists the consts the item refers to (they must be defined before it).
	Uses []string `json:"uses,omitempty"`
}

// AutoVar mirrors a command-config entry.
type AutoVar struct {
	VarName string
	ArgPos  int // -1: use VarName
}

// File is one generated file plus the environment it is meant to be compiled in.
type File struct {
	Items    []Item
	Switches map[string]string
	AutoVars map[string]AutoVar
	Fonts    *FontFile
	Consts   map[string][]string
}

// FontFile is the content of the simulated font config.
type FontFile struct {
	DefaultFontID string                 `json:"defaultFontId"`
	Fonts         map[string]interface{} `json:"fonts"`
	ids           []string
}

func (f *FontFile) IDs() []string { return f.ids }

func (f *FontFile) JSON() []byte {
	b, _ := json.Marshal(f)
	return b
}

type Config struct {
	MaxItems   int
	MaxDepth   int
	MaxStmts   int
	PPorySw    float64
	PFormat    float64
	PConst     float64
	PText      float64
	PMoves     float64
	PAuto      float64
	PScope     float64
	NSwitches  int
	UseSwitchU bool // include a '_' fallback case most of the time
	Budget     int  // statements per file (soft)
}

func DrawConfig(r *rng.R) *Config {
	c := &Config{}
	c.MaxItems = r.Range(1, 8)
	if r.P(0.15) {
		c.MaxItems = r.Range(8, 12)
	}
	c.MaxDepth = r.Range(1, 3)
	c.MaxStmts = r.Range(1, 4)
	on := func(p, max float64) float64 {
		if r.P(p) {
			return r.Float() * max
		}
		return 0
	}
	c.PPorySw = on(0.6, 0.3)
	c.PFormat = on(0.6, 0.5)
	c.PConst = on(0.6, 0.4)
	c.PText = on(0.8, 0.5)
	c.PMoves = on(0.6, 0.3)
	c.PAuto = on(0.5, 0.4)
	c.PScope = on(0.5, 0.4)
	c.NSwitches = r.Range(1, 3)
	c.Budget = 120
	if r.P(0.02) {
		// scale mode: scripts that split into many (>= 64, >= 100) chunks, files with more
		// than 64 hoisted texts / format() calls
		c.MaxItems = r.Range(2, 6)
		c.MaxDepth = r.Range(3, 4)
		c.MaxStmts = r.Range(6, 14)
		c.Budget = r.Range(150, 700)
		if r.Bool() {
			c.PText = 0.6 + r.Float()*0.3
			c.PFormat = 0.5 + r.Float()*0.45
		}
	}
	return c
}

type g struct {
	r       *rng.R
	c       *Config
	f       *File
	n       int
	consts  []string
	uses    map[string]bool
	swKeys  []string
	swVals  map[string][]string
	autos   []string
	scripts []string
	lits    []string
	left    int
	// colonOnly: poryswitch cases use the ':' form only. Inside moves( ... ) the brace form
	// is rejected by the compiler at b12758c ("expected movement command, but got '}'": the
	// list parser looks for ')' as its end) - a C12 matter, noted in DESIGN.md, not ours.
	colonOnly bool
	tinySteps bool
	usedCaps  map[string]bool
}

func (x *g) id(prefix string) string {
	x.n++
	return fmt.Sprintf("%s%d", prefix, x.n)
}

// Gen draws one file.
func Gen(r *rng.R, c *Config) *File {
	x := &g{r: r, c: c, f: &File{Switches: map[string]string{}, AutoVars: map[string]AutoVar{}, Consts: map[string][]string{}}, uses: map[string]bool{}, swVals: map[string][]string{}}
	// compile-time switches
	keys := []string{"GAME_VERSION", "LANGUAGE", "MODE"}
	vals := [][]string{{"RUBY", "SAPPHIRE", "EMERALD"}, {"ENGLISH", "GERMAN"}, {"A", "B", "1"}}
	for i := 0; i < c.NSwitches; i++ {
		x.swKeys = append(x.swKeys, keys[i])
		x.swVals[keys[i]] = vals[i]
		v := vals[i][r.Intn(len(vals[i]))]
		if r.P(0.15) {
			v = "OTHER" // matches no case: only '_' can catch it
		} else if r.P(0.08) {
			// same word, other letter case: still matches no case exactly
			v = strings.ToUpper(v[:1]) + strings.ToLower(v[1:])
		}
		x.f.Switches[keys[i]] = v
	}
	// autovars
	if c.PAuto > 0 {
		nr := r.Fork("avnames")
		stock := nr.P(0.3)
		perm := nr.Perm(len(gen.StockAutoVarNames))
		for i := 0; i < r.Range(1, 2); i++ {
			name := fmt.Sprintf("av%d", i)
			if stock {
				name = gen.StockAutoVarNames[perm[i]]
			}
			if r.Bool() {
				x.f.AutoVars[name] = AutoVar{VarName: "VAR_RESULT", ArgPos: -1}
			} else {
				x.f.AutoVars[name] = AutoVar{ArgPos: r.Intn(2)}
			}
			x.autos = append(x.autos, name)
		}
	}
	x.tinySteps = r.P(0.1)
	x.left = c.Budget
	// fonts
	x.f.Fonts = x.fonts()
	n := r.Range(1, c.MaxItems)
	kinds := []string{"script", "script", "script", "text", "movement", "mart", "mapscripts", "raw", "const"}
	nScripts := 0
	for i := 0; i < n; i++ {
		k := kinds[r.Intn(len(kinds))]
		if k == "const" && !(c.PConst > 0) {
			k = "script"
		}
		if k == "script" {
			nScripts++
		}
		x.item(k)
	}
	if nScripts == 0 && r.P(0.7) {
		x.item("script")
	}
	return x.f
}

func (x *g) fonts() *FontFile {
	r := x.r
	ff := &FontFile{Fonts: map[string]interface{}{}}
	n := r.Range(1, 3)
	names := []string{"1_latin_rse", "1_latin_frlg", "2_small"}
	for i := 0; i < n; i++ {
		widths := map[string]int{"default": r.Range(3, 8), " ": r.Range(2, 4)}
		for _, ch := range "abcdefgilmwHWxyz.,!" {
			if r.P(0.6) {
				widths[string(ch)] = r.Range(2, 9)
			}
		}
		widths["{PLAYER}"] = r.Range(20, 60)
		font := map[string]interface{}{"widths": widths, "maxLineLength": r.Range(40, 220), "numLines": r.Range(1, 3), "cursorOverlapWidth": r.Range(0, 12)}
		ff.Fonts[names[i]] = font
		ff.ids = append(ff.ids, names[i])
	}
	ff.DefaultFontID = ff.ids[r.Intn(len(ff.ids))]
	return ff
}

func (x *g) scope(out *[]string) {
	if x.r.P(x.c.PScope) {
		*out = append(*out, "(", []string{"global", "local"}[x.r.Intn(2)], ")")
	}
}

func (x *g) item(kind string) {
	r := x.r
	x.uses = map[string]bool{}
	var t []string
	name := ""
	switch kind {
	case "script":
		name = x.id("Scr")
		x.scripts = append(x.scripts, name)
		t = append(t, "script")
		x.scope(&t)
		t = append(t, name, "{")
		t = append(t, x.block(0, false, false, true)...)
		t = append(t, "}")
	case "text":
		name = x.id("Txt")
		t = append(t, "text")
		x.scope(&t)
		t = append(t, name, "{")
		if x.r.P(x.c.PPorySw) {
			t = append(t, x.porySwitch(func(brace bool) []string { return x.textValue() }, true)...)
		} else {
			t = append(t, x.textValue()...)
		}
		t = append(t, "}")
	case "movement":
		name = x.id("Mov")
		t = append(t, "movement")
		x.scope(&t)
		t = append(t, name, "{")
		t = append(t, x.steps(true)...)
		t = append(t, "}")
	case "mart":
		name = x.id("Mart")
		t = append(t, "mart")
		x.scope(&t)
		t = append(t, name, "{")
		t = append(t, x.martItems(true)...)
		t = append(t, "}")
	case "mapscripts":
		name = x.id("Map")
		t = append(t, "mapscripts")
		x.scope(&t)
		t = append(t, name, "{")
		types := []string{"MAP_SCRIPT_ON_LOAD", "MAP_SCRIPT_ON_TRANSITION", "MAP_SCRIPT_ON_RESUME", "MAP_SCRIPT_ON_FRAME_TABLE", "MAP_SCRIPT_ON_WARP_INTO_MAP_TABLE", "MAP_SCRIPT_ON_DIVE_WARP"}
		perm := r.Perm(len(types))
		n := r.Range(0, 4)
		for i := 0; i < n; i++ {
			ty := types[perm[i]]
			t = append(t, ty)
			switch r.Intn(3) {
			case 0:
				t = append(t, ":", x.labelRef())
			case 1:
				t = append(t, "{")
				t = append(t, x.block(0, false, false, true)...)
				t = append(t, "}")
			default:
				t = append(t, "[")
				k := r.Range(0, 3)
				for j := 0; j < k; j++ {
					t = append(t, x.value()...)
					t = append(t, ",")
					t = append(t, x.value()...)
					if r.Bool() {
						t = append(t, ":", x.labelRef())
					} else {
						t = append(t, "{")
						t = append(t, x.block(0, false, false, true)...)
						t = append(t, "}")
					}
				}
				t = append(t, "]")
			}
		}
		t = append(t, "}")
	case "raw":
		name = x.id("Raw")
		lines := []string{name + ":", "\tlock", "\tfaceplayer", "# a comment", "\tend", "", ".string \"hi$\""}
		k := r.Range(1, len(lines))
		sep := "\n"
		switch r.Intn(8) {
		case 0:
			sep = "\r\n"
		case 1:
			sep = "\r"
		}
		// (the marker label keeps its own line: the clause-2 oracle delimits blocks by names)
		body := lines[0]
		if k > 1 {
			body += "\n" + strings.Join(lines[1:k], sep)
		}
		if r.P(0.3) {
			body += "\n\n"
		}
		t = append(t, "raw", "`"+"\n"+body+"`")
	case "const":
		name = x.id("K")
		t = append(t, "const", name, "=")
		v := x.constValue()
		if r.P(0.05) {
			// a constant defined from itself (accepted: its value is its own name)
			v = []string{name}
		}
		t = append(t, v...)
		x.f.Consts[name] = v
		defer func() { x.consts = append(x.consts, name) }()
	}
	it := Item{Kind: kind, Name: name, Toks: t}
	for u := range x.uses {
		it.Uses = append(it.Uses, u)
	}
	sort.Strings(it.Uses)
	x.f.Items = append(x.f.Items, it)
}

func (x *g) labelRef() string {
	if len(x.scripts) > 0 && x.r.P(0.7) {
		return x.scripts[x.r.Intn(len(x.scripts))]
	}
	return fmt.Sprintf("Ext_%d", x.r.Intn(4))
}

func (x *g) constValue() []string {
	r := x.r
	switch r.Intn(5) {
	case 0:
		return []string{fmt.Sprint(r.Intn(50))}
	case 1:
		return []string{fmt.Sprintf("0x%X", r.Intn(500))}
	case 2:
		return []string{"VAR_TEMP_" + fmt.Sprint(r.Intn(5))}
	case 3:
		if len(x.consts) > 0 {
			c := x.consts[r.Intn(len(x.consts))]
			x.uses[c] = true
			return []string{c, "+", fmt.Sprint(r.Intn(9))}
		}
		return []string{"FLAG_TEMP_1"}
	}
	return []string{"(", "BASE", "+", fmt.Sprint(r.Intn(9)), ")"}
}

// value draws an operand-like token sequence, possibly a const.
func (x *g) value() []string {
	r := x.r
	if len(x.consts) > 0 && r.P(x.c.PConst) {
		c := x.consts[r.Intn(len(x.consts))]
		x.uses[c] = true
		return []string{c}
	}
	switch r.Intn(6) {
	case 0:
		return []string{fmt.Sprintf("VAR_%d", r.Intn(4))}
	case 1:
		return []string{fmt.Sprint(r.Intn(12))}
	case 2:
		if r.Bool() {
			return []string{fmt.Sprintf("0x%x", r.Intn(4096))}
		}
		return []string{fmt.Sprintf("0x%X", r.Intn(64))}
	case 3:
		return []string{"-" + fmt.Sprint(r.Range(1, 5))}
	case 4:
		return []string{"FLAG_" + string(rune('A'+r.Intn(4)))}
	}
	return []string{"ITEM_" + fmt.Sprint(r.Intn(5))}
}

var words = []string{"Hello", "there,", "{PLAYER}!", "How", "are", "you", "doing", "today?", "Wi", "m", "x.", "supercalifragilistic", "a", "I", "é", "ポケ"}

func (x *g) literal(long bool) string {
	r := x.r
	// repeated content (within a file) exercises de-duplication and any result cache
	if len(x.lits) > 0 && r.P(0.3) {
		return x.lits[r.Intn(len(x.lits))]
	}
	s := x.freshLiteral(long)
	if len(x.lits) < 8 {
		x.lits = append(x.lits, s)
	}
	return s
}

func (x *g) freshLiteral(long bool) string {
	r := x.r
	n := r.Range(0, 3)
	if long {
		n = r.Range(2, 14)
	}
	var sb strings.Builder
	for i := 0; i < n; i++ {
		if i > 0 {
			switch r.Intn(12) {
			case 0:
				sb.WriteString(`\n`)
			case 1:
				sb.WriteString(`\p`)
			case 2:
				sb.WriteString(`\l`)
			case 3:
				sb.WriteString(` \N `)
			case 4:
				sb.WriteString("  ")
			default:
				sb.WriteByte(' ')
			}
		}
		if r.P(0.01) {
			// a word longer than any sensible buffer
			sb.WriteString(strings.Repeat("W", r.Range(250, 300)))
		} else {
			sb.WriteString(words[r.Intn(len(words))])
		}
	}
	if r.P(0.15) {
		sb.WriteString("$")
	}
	return sb.String()
}

func (x *g) strLit(long bool) string {
	r := x.r
	ty := ""
	switch r.Intn(8) {
	case 0:
		ty = "ascii"
	case 1:
		ty = "braille"
	case 2:
		ty = "custom"
	}
	s := ty + `"` + x.literal(long) + `"`
	return s
}

// textValue: a string, typed string or format() call.
func (x *g) textValue() []string {
	r := x.r
	if r.P(x.c.PFormat) {
		return x.format()
	}
	t := []string{x.strLit(false)}
	if r.P(0.15) {
		// multi-part literal (adjacent strings join with a newline); keep them on one token list
		t[0] = t[0] + "\n" + `"` + x.literal(false) + `"`
	}
	return t
}

func (x *g) format() []string {
	r := x.r
	t := []string{"format", "(", x.strLit(true)}
	ids := x.f.Fonts.IDs()
	font := `"` + ids[r.Intn(len(ids))] + `"`
	if r.P(0.1) {
		font = `"TEST"`
	}
	ll := fmt.Sprint(r.Range(20, 240))
	switch r.Intn(7) {
	case 0:
	case 1:
		t = append(t, ",", font)
	case 2:
		t = append(t, ",", ll)
	case 3:
		t = append(t, ",", font, ",", ll)
	case 4:
		t = append(t, ",", ll, ",", font)
	case 5:
		// named only
		named := [][]string{{"fontId", "=", font}, {"maxLineLength", "=", ll}, {"numLines", "=", fmt.Sprint(r.Range(1, 4))}, {"cursorOverlapWidth", "=", fmt.Sprint(r.Range(0, 10))}}
		p := r.Perm(4)
		k := r.Range(1, 4)
		for i := 0; i < k; i++ {
			t = append(t, ",")
			t = append(t, named[p[i]]...)
		}
	default:
		t = append(t, ",", font, ",", "numLines", "=", fmt.Sprint(r.Range(1, 3)))
		if r.Bool() {
			t = append(t, ",", "cursorOverlapWidth", "=", fmt.Sprint(r.Range(0, 10)))
		}
	}
	t = append(t, ")")
	return t
}

// porySwitch wraps a case-content generator. inner(brace) returns the content of one
// case; text cases take exactly one value, list/statement cases take several with braces.
func (x *g) porySwitch(inner func(brace bool) []string, forceAll bool) []string {
	r := x.r
	key := x.swKeys[r.Intn(len(x.swKeys))]
	t := []string{"poryswitch", "(", key, ")", "{"}
	vals := x.swVals[key]
	p := r.Perm(len(vals))
	k := r.Range(1, len(vals))
	hasCur := false
	for i := 0; i < k; i++ {
		v := vals[p[i]]
		if v == x.f.Switches[key] {
			hasCur = true
		}
		t = append(t, v)
		if r.Bool() || x.colonOnly {
			t = append(t, ":")
			t = append(t, inner(false)...)
		} else {
			t = append(t, "{")
			t = append(t, inner(true)...)
			t = append(t, "}")
		}
	}
	if r.P(0.06) && len(vals) > 0 {
		// a label that differs from another one (and from the -s value) only in letter case
		v := vals[p[0]]
		alt := strings.ToLower(v)
		if alt == v {
			alt = strings.ToUpper(v)
		}
		t = append(t, alt)
		if r.Bool() || x.colonOnly {
			t = append(t, ":")
			t = append(t, inner(false)...)
		} else {
			t = append(t, "{")
			t = append(t, inner(true)...)
			t = append(t, "}")
		}
	}
	if !hasCur || r.P(0.5) {
		t = append(t, "_")
		if r.Bool() || x.colonOnly {
			t = append(t, ":")
			t = append(t, inner(false)...)
		} else {
			t = append(t, "{")
			t = append(t, inner(true)...)
			t = append(t, "}")
		}
	}
	t = append(t, "}")
	return t
}

var stepNames = []string{"walk_up", "walk_down", "walk_left", "face_player", "delay_16", "delay_1", "delay_2", "delay_4", "delay_8", "jump_2_right", "set_invisible"}

func (x *g) steps(multi bool) []string {
	r := x.r
	var t []string
	n := 1
	if multi {
		n = r.Range(0, 5)
		if x.tinySteps {
			n = r.Range(1, 2)
		}
	}
	if multi && r.P(0.1) {
		// a list made only of poryswitch blocks (empty when nothing is selected, e.g. in lint mode)
		for k := r.Range(1, 2); k > 0; k-- {
			t = append(t, x.porySwitch(func(brace bool) []string { return x.steps(false) }, false)...)
		}
		return t
	}
	for i := 0; i < n; i++ {
		if multi && r.P(x.c.PPorySw*0.5) {
			t = append(t, x.porySwitch(func(brace bool) []string { return x.steps(brace) }, false)...)
			continue
		}
		if x.tinySteps {
			// adversarial naming: names that are other names followed by digits, so that any
			// key / label built by concatenation without a separator can collide
			t = append(t, []string{"d_1", "d_11", "d_16", "d_116"}[r.Intn(4)])
			if r.P(0.5) {
				t = append(t, "*", []string{"1", "6", "16"}[r.Intn(3)])
			}
		} else {
			t = append(t, stepNames[r.Intn(len(stepNames))])
			if r.P(0.3) {
				t = append(t, "*", fmt.Sprint([]int{1, 2, 3, 4, 6, 8, 16}[r.Intn(7)]))
			}
		}
		if multi && r.P(0.2) {
			t = append(t, ",")
		}
	}
	if multi && r.P(0.1) {
		t = append(t, "step_end")
		if r.Bool() {
			t = append(t, "walk_up")
		}
	}
	return t
}

func (x *g) martItems(multi bool) []string {
	r := x.r
	var t []string
	n := 1
	if multi {
		n = r.Range(0, 5)
	}
	if multi && r.P(0.1) {
		for k := r.Range(1, 2); k > 0; k-- {
			t = append(t, x.porySwitch(func(brace bool) []string { return x.martItems(false) }, false)...)
		}
		return t
	}
	for i := 0; i < n; i++ {
		if multi && r.P(x.c.PPorySw*0.5) {
			t = append(t, x.porySwitch(func(brace bool) []string { return x.martItems(brace) }, false)...)
			continue
		}
		if len(x.consts) > 0 && r.P(x.c.PConst) {
			c := x.consts[r.Intn(len(x.consts))]
			x.uses[c] = true
			t = append(t, c)
		} else if r.P(0.08) {
			t = append(t, "ITEM_NONE")
		} else {
			t = append(t, "ITEM_"+[]string{"POTION", "POKE_BALL", "REPEL", "ANTIDOTE"}[r.Intn(4)])
		}
	}
	return t
}

func (x *g) command() []string {
	r := x.r
	name := []string{"lock", "faceplayer", "msgbox", "setvar", "applymovement", "release", "giveitem", "waitstate", "special"}[r.Intn(9)]
	t := []string{name}
	n := r.Intn(4)
	if n == 0 {
		if r.P(0.1) {
			t = append(t, "(", ")")
		}
		return t
	}
	t = append(t, "(")
	for i := 0; i < n; i++ {
		if i > 0 {
			t = append(t, ",")
		}
		switch {
		case r.P(x.c.PText):
			t = append(t, x.textValue()...)
		case r.P(x.c.PMoves):
			t = append(t, "moves", "(")
			x.colonOnly = r.P(0.9)
			t = append(t, x.steps(true)...)
			x.colonOnly = false
			t = append(t, ")")
		case r.P(0.15):
			t = append(t, "(", "A", "+", "1", ")", "*", "2")
		default:
			t = append(t, x.value()...)
		}
	}
	t = append(t, ")")
	return t
}

func (x *g) autoCommand() []string {
	r := x.r
	name := x.autos[r.Intn(len(x.autos))]
	av := x.f.AutoVars[name]
	t := []string{name}
	n := r.Intn(3)
	if av.ArgPos >= 0 && n < av.ArgPos+1 {
		n = av.ArgPos + 1
	}
	if n == 0 {
		return t
	}
	t = append(t, "(")
	for i := 0; i < n; i++ {
		if i > 0 {
			t = append(t, ",")
		}
		if i == av.ArgPos {
			t = append(t, fmt.Sprintf("VAR_%d", r.Intn(4)))
		} else if r.P(x.c.PText * 0.5) {
			t = append(t, x.textValue()...)
		} else {
			t = append(t, x.value()...)
		}
	}
	t = append(t, ")")
	return t
}

func (x *g) leaf() []string {
	r := x.r
	var t []string
	neg := r.P(0.25)
	if neg {
		t = append(t, "!")
	}
	kind := r.Intn(4)
	if len(x.autos) > 0 && r.P(x.c.PAuto) {
		kind = 4
	}
	switch kind {
	case 0, 1:
		t = append(t, "flag", "(")
		t = append(t, x.value()...)
		t = append(t, ")")
		if !neg && r.P(0.4) {
			t = append(t, []string{"==", "!="}[r.Intn(2)], []string{"TRUE", "FALSE", "true", "false"}[r.Intn(4)])
		}
	case 2:
		t = append(t, "defeated", "(", fmt.Sprintf("TRAINER_%d", r.Intn(3)), ")")
		if !neg && r.P(0.4) {
			t = append(t, "==", []string{"TRUE", "FALSE", "true", "false"}[r.Intn(4)])
		}
	default:
		if kind == 4 {
			t = append(t, x.autoCommand()...)
		} else {
			t = append(t, "var", "(")
			t = append(t, x.value()...)
			t = append(t, ")")
		}
		if !neg && r.P(0.6) {
			t = append(t, []string{"==", "!=", "<", "<=", ">", ">="}[r.Intn(6)])
			if r.P(0.2) {
				t = append(t, "value", "(")
				t = append(t, x.value()...)
				if r.P(0.3) {
					t = append(t, "+", "1")
				}
				t = append(t, ")")
			} else {
				t = append(t, x.value()...)
				if r.P(0.2) {
					t = append(t, "+", "BASE")
				}
			}
		}
	}
	return t
}

func (x *g) expr(n int) []string {
	r := x.r
	if n <= 1 {
		if r.P(0.15) {
			t := []string{"("}
			t = append(t, x.leaf()...)
			return append(t, ")")
		}
		return x.leaf()
	}
	k := r.Range(1, n-1)
	l := x.expr(k)
	rt := x.expr(n - k)
	op := []string{"&&", "||"}[r.Intn(2)]
	var t []string
	wrap := func(e []string, p float64) []string {
		if r.P(p) {
			w := []string{"("}
			if r.P(0.3) {
				w = []string{"!", "("}
			}
			w = append(w, e...)
			return append(w, ")")
		}
		return e
	}
	t = append(t, wrap(l, 0.3)...)
	t = append(t, op)
	t = append(t, wrap(rt, 0.3)...)
	return t
}

func (x *g) cond() []string {
	n := 1
	if x.r.P(0.4) {
		n = x.r.Range(2, 5)
	}
	t := []string{"("}
	t = append(t, x.expr(n)...)
	return append(t, ")")
}

// block draws a statement list. braceEnd: the block is closed by '}' (continue may be last).
func (x *g) block(depth int, inLoop, inBreak, braceEnd bool) []string {
	r := x.r
	var t []string
	n := r.Range(0, x.c.MaxStmts)
	for i := 0; i < n && x.left > 0; i++ {
		x.left--
		k := r.Intn(16)
		if depth >= x.c.MaxDepth && k >= 6 && k <= 11 {
			k = 0
		}
		switch {
		case k < 5:
			t = append(t, x.command()...)
		case k == 5:
			l := x.id("Lbl")
			if r.P(0.1) {
				// an all-caps identifier that spells a keyword is an ordinary identifier
				l = x.capsName()
			}
			t = append(t, l)
			if r.P(0.3) {
				t = append(t, "(", []string{"global", "local"}[r.Intn(2)], ")")
			}
			t = append(t, ":")
		case k == 6 || k == 7:
			t = append(t, "if")
			t = append(t, x.cond()...)
			t = append(t, "{")
			t = append(t, x.block(depth+1, inLoop, inBreak, true)...)
			t = append(t, "}")
			for r.P(0.3) {
				t = append(t, "elif")
				t = append(t, x.cond()...)
				t = append(t, "{")
				t = append(t, x.block(depth+1, inLoop, inBreak, true)...)
				t = append(t, "}")
			}
			if r.P(0.4) {
				t = append(t, "else", "{")
				t = append(t, x.block(depth+1, inLoop, inBreak, true)...)
				t = append(t, "}")
			}
		case k == 8:
			t = append(t, "while")
			if r.P(0.8) {
				t = append(t, x.cond()...)
			}
			t = append(t, "{")
			t = append(t, x.block(depth+1, true, true, true)...)
			t = append(t, "}")
		case k == 9:
			t = append(t, "do", "{")
			t = append(t, x.block(depth+1, true, true, true)...)
			t = append(t, "}", "while")
			t = append(t, x.cond()...)
		case k == 10:
			t = append(t, "switch", "(")
			if len(x.autos) > 0 && r.P(x.c.PAuto) {
				t = append(t, x.autoCommand()...)
			} else {
				t = append(t, "var", "(")
				t = append(t, x.value()...)
				t = append(t, ")")
			}
			t = append(t, ")", "{")
			nc := r.Range(1, 4)
			def := -1
			if r.P(0.5) {
				def = r.Intn(nc + 1)
			}
			vals := r.Perm(9)
			total := nc
			if def >= 0 {
				total = nc + 1
			}
			ci := 0
			for p := 0; p < total; p++ {
				if p == def {
					t = append(t, "default", ":")
				} else {
					t = append(t, "case", fmt.Sprint(vals[ci]), ":")
					ci++
				}
				if r.P(0.7) {
					t = append(t, x.block(depth+1, inLoop, true, p == total-1)...)
				}
			}
			t = append(t, "}")
		case k == 11:
			if x.c.PPorySw > 0 {
				t = append(t, x.porySwitch(func(brace bool) []string {
					if brace {
						return x.block(depth+1, inLoop, inBreak, true)
					}
					return x.command()
				}, false)...)
			} else {
				t = append(t, x.command()...)
			}
		case k == 12:
			if inBreak {
				t = append(t, "break")
			} else {
				t = append(t, "end")
			}
		case k == 13:
			t = append(t, []string{"end", "return"}[r.Intn(2)])
		case k == 14:
			t = append(t, []string{"goto", "call"}[r.Intn(2)], "(", x.labelRef(), ")")
		default:
			if inLoop && braceEnd && i == n-1 {
				t = append(t, "continue")
			} else {
				t = append(t, x.command()...)
			}
		}
	}
	return t
}

// Tokens is the lexeme list of the whole file, or of a subset of its items.
func (f *File) Tokens(only []int) []string {
	var t []string
	if only == nil {
		for _, it := range f.Items {
			t = append(t, it.Toks...)
		}
		return t
	}
	for _, i := range only {
		t = append(t, f.Items[i].Toks...)
	}
	return t
}

// Join renders lexemes with seeded layout (style 1 = single spaces / newlines between items).
func Join(toks []string, style int, next func() uint64) string {
	if style >= 3 {
		return model.TightJoin(toks, style == 4, next)
	}
	var sb strings.Builder
	for i, t := range toks {
		if i > 0 {
			if style <= 1 {
				if isTop(t) {
					sb.WriteByte('\n')
				} else {
					sb.WriteByte(' ')
				}
			} else {
				switch next() % 14 {
				case 0, 1:
					sb.WriteByte('\n')
				case 2:
					sb.WriteString("\r\n")
				case 3:
					sb.WriteByte('\t')
				case 4:
					sb.WriteString(" " + model.Comments[next()%uint64(len(model.Comments))] + "\n")
				case 5:
					sb.WriteString(" " + model.Comments[next()%uint64(len(model.Comments))] + "\r\n")
				default:
					sb.WriteByte(' ')
				}
			}
		}
		sb.WriteString(t)
	}
	sb.WriteByte('\n')
	return sb.String()
}

func isTop(t string) bool {
	switch t {
	case "script", "text", "movement", "mart", "mapscripts", "raw", "const":
		return true
	}
	return false
}

// Variant returns a font file with the same font ids and default but freshly drawn
// metrics (another project's font config under the same path).
func (f *FontFile) Variant(r *rng.R) *FontFile {
	g := &FontFile{DefaultFontID: f.DefaultFontID, Fonts: map[string]interface{}{}, ids: append([]string(nil), f.ids...)}
	for _, id := range f.ids {
		widths := map[string]int{"default": r.Range(3, 9), " ": r.Range(2, 5)}
		for _, ch := range "abcdefgilmwHWxyz.,!" {
			if r.P(0.6) {
				widths[string(ch)] = r.Range(2, 10)
			}
		}
		widths["{PLAYER}"] = r.Range(20, 60)
		g.Fonts[id] = map[string]interface{}{"widths": widths, "maxLineLength": r.Range(40, 220), "numLines": r.Range(1, 3), "cursorOverlapWidth": r.Range(0, 12)}
	}
	return g
}

var capsPool = []string{"DEFAULT", "CASE", "BREAK", "CONTINUE", "IF", "ELSE", "ELIF", "DO", "WHILE", "SWITCH", "SCRIPT", "TEXT", "RAW", "VAR", "FLAG", "VALUE", "MOVES", "FORMAT", "GLOBAL", "LOCAL", "END", "RETURN", "PORYSWITCH", "CONST", "Default", "Case"}

// capsName returns a not yet used identifier that is an upper-case spelling of a keyword.
func (x *g) capsName() string {
	for tries := 0; tries < 8; tries++ {
		n := capsPool[x.r.Intn(len(capsPool))]
		if !x.usedCaps[n] {
			if x.usedCaps == nil {
				x.usedCaps = map[string]bool{}
			}
			x.usedCaps[n] = true
			return n
		}
	}
	return x.id("Lbl")
}

// WithoutDefault returns the same fonts without a defaultFontId (a legal config).
func (f *FontFile) WithoutDefault() *FontFile {
	g := &FontFile{DefaultFontID: "", Fonts: f.Fonts, ids: f.ids}
	return g
}

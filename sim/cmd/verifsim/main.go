// Command verifsim is the simulator binary. It is always linked against an instrumented
// scratch copy of /repo's current working tree (see check.sh).
//
//	verifsim run    -prop C01 -tier quick      campaign: spawns one worker process per core
//	verifsim worker ...                        one worker (internal)
//	verifsim replay <file>                     re-execute one replay file
//	verifsim refop                             reference executor for the history engine (internal)
//	verifsim transp <file>                     transparency check input (run by the plain build)
package main

import (
	"bufio"
	"encoding/binary"
	"encoding/json"
	"flag"
	"fmt"
	"io"
	"log"
	"os"
	"os/exec"
	"path/filepath"
	"runtime"
	"sort"
	"strconv"
	"strings"
	"sync"
	"time"

	"verifsim/internal/engine"
)

type workerOut struct {
	Stats    *engine.Stats     `json:"stats"`
	Failures []*engine.Failure `json:"failures"`
}

func main() {
	if len(os.Args) < 2 {
		fmt.Fprintln(os.Stderr, "usage: verifsim run|worker|replay|refop|transp ...")
		os.Exit(2)
	}
	switch os.Args[1] {
	case "run":
		os.Exit(cmdRun(os.Args[2:]))
	case "worker":
		os.Exit(cmdWorker(os.Args[2:]))
	case "replay":
		os.Exit(cmdReplay(os.Args[2:]))
	case "refop":
		os.Exit(engine.RefOpMain())
	case "transp":
		os.Exit(engine.TranspMain(os.Args[2:]))
	case "refkey":
		log.SetOutput(io.Discard)
		os.Exit(engine.RefKeyMain())
	case "gen":
		os.Exit(cmdGen(os.Args[2:]))
	case "outs":
		fs := flag.NewFlagSet("outs", flag.ExitOnError)
		prop := fs.String("prop", "C05", "")
		seed := fs.Uint64("seed", 1, "")
		count := fs.Uint64("count", 1000, "")
		fs.Parse(os.Args[2:])
		engine.DebugOuts(*prop, *seed, *count)
		os.Exit(0)
	default:
		fmt.Fprintln(os.Stderr, "unknown sub-command", os.Args[1])
		os.Exit(2)
	}
}

func envSeed() uint64 {
	if s := os.Getenv("VERIF_SEED"); s != "" {
		if v, err := strconv.ParseUint(strings.TrimSpace(s), 0, 64); err == nil {
			return v
		}
		if v, err := strconv.ParseInt(strings.TrimSpace(s), 0, 64); err == nil {
			return uint64(v)
		}
	}
	return 1
}

func engineOf(prop string) string {
	switch prop {
	case "C01", "C02", "C03", "C05", "C11":
		return "cosim"
	case "C17":
		return "hist"
	case "C18":
		return "fault"
	}
	return ""
}

func cmdWorker(args []string) int {
	fs := flag.NewFlagSet("worker", flag.ExitOnError)
	pm := &engine.Params{}
	fs.StringVar(&pm.Property, "prop", "", "")
	fs.StringVar(&pm.Tier, "tier", "quick", "")
	fs.Uint64Var(&pm.VerifSeed, "seed", 1, "")
	fs.Uint64Var(&pm.From, "from", 0, "")
	fs.Uint64Var(&pm.Stride, "stride", 1, "")
	fs.Uint64Var(&pm.Count, "count", 1, "")
	fs.StringVar(&pm.ReplayDir, "replays", "/verif/replays", "")
	fs.IntVar(&pm.MaxFail, "maxfail", 2, "")
	fs.StringVar(&pm.DistinctOut, "distinct", "", "")
	fs.StringVar(&pm.TranspOut, "transp", "", "")
	known := fs.String("known", "", "")
	fs.StringVar(&pm.SelfExe, "self", "", "")
	fs.BoolVar(&pm.PerRun, "perrun", false, "")
	fs.Parse(args)
	pm.Thorough = pm.Tier == "thorough"
	log.SetOutput(io.Discard) // the library logs warnings; they are not part of any compared result
	if *known != "" {
		k, err := engine.LoadKnown(*known)
		if err != nil {
			fmt.Fprintln(os.Stderr, "known findings:", err)
			return 2
		}
		pm.Known = k
	}
	if pm.SelfExe == "" {
		pm.SelfExe, _ = os.Executable()
	}
	var st *engine.Stats
	var fails []*engine.Failure
	switch engineOf(pm.Property) {
	case "cosim":
		st, fails = engine.CosimWorker(pm)
	case "hist":
		st, fails = engine.HistWorker(pm)
	case "fault":
		st, fails = engine.FaultWorker(pm)
	default:
		fmt.Fprintln(os.Stderr, "no engine for property", pm.Property)
		return 2
	}
	w := bufio.NewWriter(os.Stdout)
	json.NewEncoder(w).Encode(workerOut{Stats: st, Failures: fails})
	w.Flush()
	return 0
}

func cmdRun(args []string) int {
	fs := flag.NewFlagSet("run", flag.ExitOnError)
	prop := fs.String("prop", "", "property id")
	tier := fs.String("tier", "quick", "quick|thorough")
	seed := fs.Uint64("seed", envSeed(), "VERIF_SEED")
	workers := fs.Int("workers", runtime.NumCPU(), "worker processes")
	count := fs.Uint64("count", 0, "number of runs (0 = tier default)")
	offset := fs.Uint64("offset", 0, "first run index (default 0)")
	evidence := fs.String("evidence", "", "evidence file to write")
	replays := fs.String("replays", "/verif/replays", "replay directory")
	known := fs.String("known", "/verif/known_findings.json", "known findings file")
	scratch := fs.String("scratch", os.TempDir(), "scratch dir for worker output")
	plain := fs.String("plain", "", "path of the plain (un-instrumented) build for the transparency check")
	instrReport := fs.String("instr-report", "", "instrumenter report (json)")
	digestOnly := fs.Bool("digest", false, "print only the campaign digest (determinism self-test)")
	perRun := fs.Bool("perrun", false, "with -digest: print one digest line per run")
	fs.Parse(args)
	eng := engineOf(*prop)
	if eng == "" {
		fmt.Fprintln(os.Stderr, "no engine for property", *prop)
		return 2
	}
	start := time.Now()
	n := *count
	if n == 0 {
		n = engine.DefaultCount(*prop, *tier)
	}
	W := *workers
	if W < 1 {
		W = 1
	}
	if uint64(W) > n {
		W = int(n)
	}
	self, _ := os.Executable()
	outs := make([]*workerOut, W)
	errs := make([]error, W)
	var wg sync.WaitGroup
	for w := 0; w < W; w++ {
		wg.Add(1)
		go func(w int) {
			defer wg.Done()
			a := []string{"worker", "-prop", *prop, "-tier", *tier, "-seed", fmt.Sprint(*seed), "-from", fmt.Sprint(*offset + uint64(w)), "-stride", fmt.Sprint(W), "-count", fmt.Sprint(*offset + n),
				"-replays", *replays, "-known", *known, "-self", self,
				"-distinct", filepath.Join(*scratch, fmt.Sprintf("distinct.%s.%d.bin", *prop, w)),
				"-transp", filepath.Join(*scratch, fmt.Sprintf("transp.%s.%d.jsonl", *prop, w))}
			if *perRun {
				a = append(a, "-perrun")
			}
			cmd := exec.Command(self, a...)
			cmd.Stderr = os.Stderr
			b, err := cmd.Output()
			if err != nil {
				errs[w] = fmt.Errorf("worker %d: %v", w, err)
				return
			}
			var o workerOut
			if err := json.Unmarshal(b, &o); err != nil {
				errs[w] = fmt.Errorf("worker %d: bad output: %v", w, err)
				return
			}
			outs[w] = &o
		}(w)
	}
	wg.Wait()
	for _, e := range errs {
		if e != nil {
			fmt.Fprintln(os.Stderr, "INFRASTRUCTURE:", e)
			return 2
		}
	}
	total := engine.NewStats()
	var fails []*engine.Failure
	var digests []string
	for _, o := range outs {
		total.Merge(o.Stats)
		fails = append(fails, o.Failures...)
		digests = append(digests, o.Stats.Digest)
	}
	if *digestOnly {
		if *perRun {
			for _, o := range outs {
				for _, l := range o.Stats.PerRun {
					fmt.Println(l)
				}
			}
		} else {
			fmt.Println(strings.Join(digests, ""))
		}
	}
	// distinct union
	var hs []uint64
	for w := 0; w < W; w++ {
		p := filepath.Join(*scratch, fmt.Sprintf("distinct.%s.%d.bin", *prop, w))
		b, err := os.ReadFile(p)
		if err == nil {
			for i := 0; i+8 <= len(b); i += 8 {
				hs = append(hs, binary.LittleEndian.Uint64(b[i:]))
			}
		}
		os.Remove(p)
	}
	sort.Slice(hs, func(i, j int) bool { return hs[i] < hs[j] })
	distinct := 0
	for i := range hs {
		if i == 0 || hs[i] != hs[i-1] {
			distinct++
		}
	}
	// transparency check (plain build must agree byte for byte)
	transpFail := ""
	if *plain != "" {
		var files []string
		for w := 0; w < W; w++ {
			files = append(files, filepath.Join(*scratch, fmt.Sprintf("transp.%s.%d.jsonl", *prop, w)))
		}
		checked, msg := engine.RunTransp(*plain, self, files)
		total.TranspChecked = checked
		transpFail = msg
	}
	for w := 0; w < W; w++ {
		os.Remove(filepath.Join(*scratch, fmt.Sprintf("transp.%s.%d.jsonl", *prop, w)))
	}
	if transpFail != "" && len(fails) == 0 {
		fmt.Fprintln(os.Stderr, "INFRASTRUCTURE: instrumentation is not transparent:", transpFail)
		return 2
	}
	wall := time.Since(start).Seconds()
	// known findings lines
	kf, _ := engine.LoadKnown(*known)
	for _, id := range engine.SortedKeys(total.KnownSeen) {
		what := id
		if kf != nil {
			for _, f := range kf.Findings {
				if f.ID == id {
					what = f.What
				}
			}
		}
		fmt.Printf("KNOWN-FINDING: property=%s %s (seen %d times)\n", *prop, what, total.KnownSeen[id])
	}
	for _, f := range fails {
		fmt.Printf("VIOLATION property=%s replay=%s\n", f.Property, f.Path)
		fmt.Printf("  oracle=%s %s\n", f.Oracle, f.Detail)
	}
	if eng == "cosim" && total.Rejected > 0 {
		// not a violation of this property (its quantifier is over accepted scripts), but worth
		// seeing: the generator only writes programs the documented grammar accepts
		msgs := engine.SortedKeys(total.RejectedMsgs)
		if len(msgs) > 3 {
			msgs = msgs[:3]
		}
		fmt.Printf("NOTE: the compiler rejected %d of %d generated programs (e.g. %q)\n", total.Rejected, total.Programs, msgs)
	}
	if *evidence != "" {
		if err := engine.WriteEvidence(*evidence, *prop, *tier, *seed, n, W, distinct, wall, total, len(fails), *instrReport); err != nil {
			fmt.Fprintln(os.Stderr, "INFRASTRUCTURE: evidence:", err)
			return 2
		}
	}
	if !*digestOnly {
		fmt.Printf("property=%s tier=%s seed=%d runs=%d evaluations=%d distinct_nontrivial=%d rejected=%d budget_runs=%d wall=%.1fs violations=%d\n",
			*prop, *tier, *seed, total.Runs, total.Evaluations, distinct, total.Rejected, total.BudgetRuns, wall, len(fails))
	}
	if len(fails) > 0 {
		return 1
	}
	return 0
}

func cmdReplay(args []string) int {
	if len(args) < 1 {
		fmt.Fprintln(os.Stderr, "usage: verifsim replay <file>")
		return 2
	}
	r, err := engine.ReadReplay(args[0])
	if err != nil {
		fmt.Fprintln(os.Stderr, err)
		return 2
	}
	var oracle, detail string
	switch r.Engine {
	case "cosim":
		oracle, detail = engine.CosimReplay(r)
	case "hist":
		self, _ := os.Executable()
		oracle, detail = engine.HistReplayRun(r, self)
	case "fault":
		oracle, detail = engine.FaultReplayRun(r)
	default:
		fmt.Fprintln(os.Stderr, "unknown engine in replay file:", r.Engine)
		return 2
	}
	if oracle == "" && r.Worker != nil && (r.Worker.Run-r.Worker.From)/max64(r.Worker.Stride, 1) <= 100000 {
		// the single execution does not fail in a fresh process: the failure may need the state
		// the tree accumulated over the earlier runs of the same worker process - re-execute them
		self, _ := os.Executable()
		log.SetOutput(io.Discard)
		switch r.Engine {
		case "cosim":
			oracle, detail = engine.HistoryReplay(r, self, engine.CosimWorker)
		case "hist":
			oracle, detail = engine.HistoryReplay(r, self, engine.HistWorker)
		case "fault":
			oracle, detail = engine.HistoryReplay(r, self, engine.FaultWorker)
		}
	}
	if oracle == "" {
		fmt.Printf("not reproduced: property=%s oracle=%s %s\n", r.Property, r.Oracle, detail)
		return 0
	}
	if oracle != r.Oracle {
		fmt.Printf("reproduced a different oracle: recorded=%s now=%s %s\n", r.Oracle, oracle, detail)
	}
	fmt.Printf("VIOLATION property=%s replay=%s\n  oracle=%s %s\n", r.Property, args[0], oracle, detail)
	return 1
}

func max64(a, b uint64) uint64 {
	if a > b {
		return a
	}
	return b
}

// cmdGen prints generated programs (debugging aid).
func cmdGen(args []string) int {
	fs := flag.NewFlagSet("gen", flag.ExitOnError)
	prop := fs.String("prop", "C01", "")
	seed := fs.Uint64("seed", 1, "")
	run := fs.Uint64("run", 0, "")
	fs.Parse(args)
	fmt.Print(engine.DebugGen(*prop, *seed, *run))
	return 0
}

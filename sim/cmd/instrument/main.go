// Command instrument rewrites a scratch copy of huderlem/poryscript so that every
// source of nondeterminism / fault the verification properties depend on sits behind
// a seam owned by the simulator (package simhook). It never touches /repo.
//
//	instrument -src <scratch copy> -hook <simhook.go> -report <out.json> [-plain]
//
// Seams (text splices, so line numbers of the original code are preserved):
//   - map-order: every `range` over a value whose underlying type is a map iterates
//     simhook.Keys(m, site) instead (found with go/types, so new sites are picked up);
//   - disk: ioutil.ReadFile / os.ReadFile -> simhook.ReadFile;
//   - progress: simhook.Tick() at the top of every loop body, simhook.Enter()/Exit()
//     around every function of the library packages.
//
// With -plain only the simhook package is added (used for the transparency check).
package main

import (
	"encoding/json"
	"flag"
	"fmt"
	"go/ast"
	"go/importer"
	"go/parser"
	"go/token"
	"go/types"
	"os"
	"path/filepath"
	"sort"
	"strings"
)

type edit struct {
	off, end int // replace [off,end) ...
	text     string
}

type report struct {
	Module      string   `json:"module"`
	Plain       bool     `json:"plain"`
	MapSites    []string `json:"map_range_sites"`
	Unseamed    []string `json:"unseamed_sources"`
	ReadFiles   []string `json:"readfile_sites"`
	Loops       int      `json:"loops_ticked"`
	Funcs       int      `json:"funcs_bracketed"`
	Packages    []string `json:"packages"`
	FilesEdited int      `json:"files_edited"`
	GoSites     []string `json:"go_statement_sites"`
}

// goVersionLess compares "1.13", "1.21", "1.23.0" style versions.
func goVersionLess(a, b string) bool {
	pa, pb := strings.Split(a, "."), strings.Split(b, ".")
	for i := 0; i < 3; i++ {
		x, y := 0, 0
		if i < len(pa) {
			fmt.Sscanf(pa[i], "%d", &x)
		}
		if i < len(pb) {
			fmt.Sscanf(pb[i], "%d", &y)
		}
		if x != y {
			return x < y
		}
	}
	return false
}

// countGoStatements lists the go statements of every non-test file below src (syntax only).
func countGoStatements(src string) []string {
	sites := []string{}
	fset := token.NewFileSet()
	filepath.Walk(src, func(path string, info os.FileInfo, err error) error {
		if err != nil {
			return nil
		}
		base := filepath.Base(path)
		if info.IsDir() {
			if path != src && (strings.HasPrefix(base, ".") || base == "testdata" || base == "vendor" || (base == "simhook" && filepath.Dir(path) == src)) {
				return filepath.SkipDir
			}
			return nil
		}
		if !strings.HasSuffix(base, ".go") || strings.HasSuffix(base, "_test.go") {
			return nil
		}
		f, err := parser.ParseFile(fset, path, nil, 0)
		if err != nil {
			return nil
		}
		rel, _ := filepath.Rel(src, path)
		ast.Inspect(f, func(n ast.Node) bool {
			if g, ok := n.(*ast.GoStmt); ok {
				sites = append(sites, fmt.Sprintf("%s:%d", rel, fset.Position(g.Pos()).Line))
			}
			return true
		})
		return nil
	})
	sort.Strings(sites)
	return sites
}

type pkgInfo struct {
	dir     string
	path    string
	files   []*ast.File
	names   []string
	imports []string
	tpkg    *types.Package
	info    *types.Info
}

func fatal(f string, a ...interface{}) {
	fmt.Fprintf(os.Stderr, "instrument: "+f+"\n", a...)
	os.Exit(2)
}

func main() {
	src := flag.String("src", "", "scratch copy of the repository")
	hook := flag.String("hook", "", "path of simhook.go source")
	rep := flag.String("report", "", "report json path")
	plain := flag.Bool("plain", false, "only add the simhook package")
	flag.Parse()
	if *src == "" || *hook == "" {
		fatal("need -src and -hook")
	}
	modBytes, err := os.ReadFile(filepath.Join(*src, "go.mod"))
	if err != nil {
		fatal("%v", err)
	}
	module := ""
	for _, l := range strings.Split(string(modBytes), "\n") {
		l = strings.TrimSpace(l)
		if strings.HasPrefix(l, "module ") {
			module = strings.TrimSpace(strings.TrimPrefix(l, "module "))
		}
	}
	if module == "" {
		fatal("no module line in go.mod")
	}
	r := &report{Module: module, Plain: *plain}

	// simhook package + go directive
	hb, err := os.ReadFile(*hook)
	if err != nil {
		fatal("%v", err)
	}
	if err := os.MkdirAll(filepath.Join(*src, "simhook"), 0o755); err != nil {
		fatal("%v", err)
	}
	if err := os.WriteFile(filepath.Join(*src, "simhook", "simhook.go"), hb, 0o644); err != nil {
		fatal("%v", err)
	}
	var modOut []string
	seenGo := false
	for _, l := range strings.Split(string(modBytes), "\n") {
		t := strings.TrimSpace(l)
		if strings.HasPrefix(t, "go ") {
			// the seam needs generics (go >= 1.18; 1.21 is used). A directive below 1.21 is raised
			// to it (no language semantics change between them); a newer one is KEPT, so that
			// what it switches on - per-iteration loop variables (1.22), range over int / func -
			// holds in the scratch copy as it does in the tree.
			if goVersionLess(strings.TrimSpace(strings.TrimPrefix(t, "go ")), "1.21") {
				modOut = append(modOut, "go 1.21")
			} else {
				modOut = append(modOut, t)
			}
			seenGo = true
			continue
		}
		if strings.HasPrefix(t, "toolchain ") {
			continue
		}
		modOut = append(modOut, l)
	}
	if !seenGo {
		modOut = append(modOut, "go 1.21")
	}
	if err := os.WriteFile(filepath.Join(*src, "go.mod"), []byte(strings.Join(modOut, "\n")), 0o644); err != nil {
		fatal("%v", err)
	}

	if !*plain {
		instrument(*src, module, r)
	}
	// the number of go statements of the tree, for both builds: 0 = the compiler is
	// single-threaded and the harness calls it inline
	r.GoSites = countGoStatements(*src)
	if err := os.WriteFile(filepath.Join(*src, "simhook", "sites.go"), []byte(fmt.Sprintf("package simhook\n\n// GoSites is the number of go statements in the compiled tree (written by the instrumenter).\nconst GoSites = %d\n", len(r.GoSites))), 0o644); err != nil {
		fatal("%v", err)
	}
	if *rep != "" {
		b, _ := json.MarshalIndent(r, "", " ")
		if err := os.WriteFile(*rep, b, 0o644); err != nil {
			fatal("%v", err)
		}
	}
}

func instrument(src, module string, r *report) {
	fset := token.NewFileSet()
	pkgs := map[string]*pkgInfo{}
	// every directory below the module root that holds non-test Go files is a package
	// (the root itself - package main - is not instrumented; it is run as a subprocess)
	var dirs []string
	filepath.Walk(src, func(path string, info os.FileInfo, err error) error {
		if err != nil || !info.IsDir() {
			return nil
		}
		base := filepath.Base(path)
		if path != src && (strings.HasPrefix(base, ".") || base == "testdata" || base == "vendor" || (base == "simhook" && filepath.Dir(path) == src)) {
			return filepath.SkipDir
		}
		if path != src {
			dirs = append(dirs, path)
		}
		return nil
	})
	sort.Strings(dirs)
	for _, dir := range dirs {
		gofiles, _ := filepath.Glob(filepath.Join(dir, "*.go"))
		sort.Strings(gofiles)
		rel, _ := filepath.Rel(src, dir)
		p := &pkgInfo{dir: dir, path: module + "/" + filepath.ToSlash(rel)}
		for _, gf := range gofiles {
			if strings.HasSuffix(gf, "_test.go") {
				continue
			}
			f, err := parser.ParseFile(fset, gf, nil, parser.ParseComments)
			if err != nil {
				fatal("parse %s: %v", gf, err)
			}
			p.files = append(p.files, f)
			p.names = append(p.names, gf)
			for _, im := range f.Imports {
				p.imports = append(p.imports, strings.Trim(im.Path.Value, `"`))
			}
		}
		if len(p.files) > 0 {
			pkgs[p.path] = p
		}
	}
	// type-check in dependency order
	std := importer.ForCompiler(fset, "source", nil)
	var imp importerFunc
	var check func(path string, stack []string) *types.Package
	check = func(path string, stack []string) *types.Package {
		p := pkgs[path]
		if p.tpkg != nil {
			return p.tpkg
		}
		for _, s := range stack {
			if s == path {
				fatal("import cycle at %s", path)
			}
		}
		for _, im := range p.imports {
			if _, ok := pkgs[im]; ok {
				check(im, append(stack, path))
			}
		}
		p.info = &types.Info{Types: map[ast.Expr]types.TypeAndValue{}, Uses: map[*ast.Ident]types.Object{}, Defs: map[*ast.Ident]types.Object{}}
		conf := types.Config{Importer: imp}
		tp, err := conf.Check(path, fset, p.files, p.info)
		if err != nil {
			fatal("type-check %s: %v", path, err)
		}
		p.tpkg = tp
		return tp
	}
	imp = func(path string) (*types.Package, error) {
		if _, ok := pkgs[path]; ok {
			return check(path, nil), nil
		}
		return std.Import(path)
	}
	var paths []string
	for p := range pkgs {
		paths = append(paths, p)
	}
	sort.Strings(paths)
	for _, p := range paths {
		check(p, nil)
		r.Packages = append(r.Packages, p)
	}

	for _, pp := range paths {
		p := pkgs[pp]
		for i, f := range p.files {
			instrumentFile(fset, p, f, p.names[i], src, module, r)
		}
	}
	sort.Strings(r.MapSites)
	sort.Strings(r.Unseamed)
}

type importerFunc func(path string) (*types.Package, error)

func (f importerFunc) Import(path string) (*types.Package, error) { return f(path) }

func instrumentFile(fset *token.FileSet, p *pkgInfo, f *ast.File, name, src, module string, r *report) {
	data, err := os.ReadFile(name)
	if err != nil {
		fatal("%v", err)
	}
	rel, _ := filepath.Rel(src, name)
	off := func(pos token.Pos) int { return fset.Position(pos).Offset }
	text := func(n ast.Node) string { return string(data[off(n.Pos()):off(n.End())]) }
	var edits []edit
	var tail []string
	counter := 0
	for _, im := range f.Imports {
		path := strings.Trim(im.Path.Value, `"`)
		switch path {
		case "time", "math/rand", "math/rand/v2", "sync", "sync/atomic", "crypto/rand", "os/exec", "net", "net/http":
			r.Unseamed = append(r.Unseamed, fmt.Sprintf("%s imports %s", rel, path))
		}
	}
	ast.Inspect(f, func(n ast.Node) bool {
		switch x := n.(type) {
		case *ast.GoStmt:
			// which goroutine runs next is decided by the Go scheduler, not by the simulator
			r.Unseamed = append(r.Unseamed, fmt.Sprintf("%s:%d go statement", rel, fset.Position(x.Pos()).Line))
			// `go func(...) { body }(...)`: a panic (or a tripped budget) inside the body is
			// recorded for the harness instead of killing the process
			if fl, ok := x.Call.Fun.(*ast.FuncLit); ok && fl.Body != nil {
				edits = append(edits, edit{off(fl.Body.Lbrace) + 1, off(fl.Body.Lbrace) + 1, " defer simhook.GoExit();"})
			}
		case *ast.FuncDecl:
			if x.Body != nil {
				edits = append(edits, edit{off(x.Body.Lbrace) + 1, off(x.Body.Lbrace) + 1, " simhook.Enter(); defer simhook.Exit();"})
				r.Funcs++
			}
		case *ast.ForStmt:
			edits = append(edits, edit{off(x.Body.Lbrace) + 1, off(x.Body.Lbrace) + 1, " simhook.Tick();"})
			r.Loops++
		case *ast.RangeStmt:
			r.Loops++
			tv, ok := p.info.Types[x.X]
			isMap := false
			if ok && tv.Type != nil {
				_, isMap = tv.Type.Underlying().(*types.Map)
			}
			if !isMap {
				edits = append(edits, edit{off(x.Body.Lbrace) + 1, off(x.Body.Lbrace) + 1, " simhook.Tick();"})
				return true
			}
			site := fmt.Sprintf("%s:%d", rel, fset.Position(x.Pos()).Line)
			r.MapSites = append(r.MapSites, site)
			counter++
			iv := fmt.Sprintf("__simi%d", counter)
			sv := fmt.Sprintf("__sims%d", counter)
			okv := fmt.Sprintf("__simok%d", counter)
			kv := fmt.Sprintf("__simk%d", counter)
			keyText, valText := "", ""
			if x.Key != nil {
				keyText = text(x.Key)
			}
			if x.Value != nil {
				valText = text(x.Value)
			}
			// A three-clause loop: the ranged expression is evaluated exactly once (whatever it
			// is), a label in front of the statement still belongs to a `for`, `continue` runs
			// the post statement, and entries deleted during the iteration are skipped as Go does.
			var sb strings.Builder
			if x.Tok == token.DEFINE {
				kn := keyText
				if kn == "" || kn == "_" {
					kn = kv
				}
				if valText != "" && valText != "_" {
					// key and value variables are declared once, in the loop header
					fmt.Fprintf(&sb, "for %s, %s, %s, %s := simhook.RangeKV(%s, %q); %s < len(%s.Keys); %s++ { simhook.Tick();", iv, sv, kn, valText, text(x.X), site, iv, sv, iv)
					fmt.Fprintf(&sb, " %s = %s.Keys[%s]; var %s bool; %s, %s = %s.M[%s]; if !%s { continue };", kn, sv, iv, okv, valText, okv, sv, kn, okv)
					fmt.Fprintf(&sb, " _, _ = %s, %s;", kn, valText)
				} else {
					fmt.Fprintf(&sb, "for %s, %s, %s := simhook.RangeK(%s, %q); %s < len(%s.Keys); %s++ { simhook.Tick();", iv, sv, kn, text(x.X), site, iv, sv, iv)
					fmt.Fprintf(&sb, " %s = %s.Keys[%s]; if _, %s := %s.M[%s]; !%s { continue };", kn, sv, iv, okv, sv, kn, okv)
					fmt.Fprintf(&sb, " _ = %s;", kn)
				}
			} else {
				fmt.Fprintf(&sb, "for %s, %s := 0, simhook.Range(%s, %q); %s < len(%s.Keys); %s++ { simhook.Tick();", iv, sv, text(x.X), site, iv, sv, iv)
				fmt.Fprintf(&sb, " %s := %s.Keys[%s]; if _, %s := %s.M[%s]; !%s { continue };", kv, sv, iv, okv, sv, kv, okv)
				if keyText != "" && keyText != "_" {
					fmt.Fprintf(&sb, " %s = %s;", keyText, kv)
				}
				if valText != "" && valText != "_" {
					fmt.Fprintf(&sb, " %s = %s.M[%s];", valText, sv, kv)
				}
			}
			edits = append(edits, edit{off(x.For), off(x.Body.Lbrace) + 1, sb.String()})
		case *ast.CallExpr:
			sel, ok := x.Fun.(*ast.SelectorExpr)
			if !ok {
				return true
			}
			obj := p.info.Uses[sel.Sel]
			fn, ok := obj.(*types.Func)
			if !ok || fn.Pkg() == nil {
				return true
			}
			full := fn.Pkg().Path() + "." + fn.Name()
			switch full {
			case "io/ioutil.ReadFile", "os.ReadFile":
				edits = append(edits, edit{off(sel.Pos()), off(sel.End()), "simhook.ReadFile"})
				tail = append(tail, fmt.Sprintf("var _ = %s", text(sel)))
				r.ReadFiles = append(r.ReadFiles, fmt.Sprintf("%s:%d %s", rel, fset.Position(x.Pos()).Line, full))
			case "os.Getenv", "os.LookupEnv", "os.Environ", "os.Open", "os.Create", "os.OpenFile", "os.Stat", "os.ReadDir", "io/ioutil.ReadDir", "io/ioutil.WriteFile", "os.WriteFile", "os.Getwd", "os.Hostname", "os.Getpid":
				r.Unseamed = append(r.Unseamed, fmt.Sprintf("%s:%d call of %s", rel, fset.Position(x.Pos()).Line, full))
			case "reflect.Value.MapKeys", "reflect.Value.MapRange":
				r.Unseamed = append(r.Unseamed, fmt.Sprintf("%s:%d %s", rel, fset.Position(x.Pos()).Line, full))
			}
			if fn.Pkg().Path() == "reflect" && (fn.Name() == "MapKeys" || fn.Name() == "MapRange") {
				r.Unseamed = append(r.Unseamed, fmt.Sprintf("%s:%d reflect.%s", rel, fset.Position(x.Pos()).Line, fn.Name()))
			}
		}
		return true
	})
	if len(edits) == 0 {
		return
	}
	edits = append(edits, edit{off(f.Name.End()), off(f.Name.End()), fmt.Sprintf("; import simhook %q", module+"/simhook")})
	sort.SliceStable(edits, func(i, j int) bool { return edits[i].off < edits[j].off })
	var out strings.Builder
	pos := 0
	for _, e := range edits {
		if e.off < pos {
			fatal("%s: overlapping edits at %d", rel, e.off)
		}
		out.Write(data[pos:e.off])
		out.WriteString(e.text)
		pos = e.end
	}
	out.Write(data[pos:])
	if len(tail) > 0 {
		out.WriteString("\n")
		seen := map[string]bool{}
		for _, t := range tail {
			if !seen[t] {
				out.WriteString(t + "\n")
				seen[t] = true
			}
		}
	}
	if err := os.WriteFile(name, []byte(out.String()), 0o644); err != nil {
		fatal("%v", err)
	}
	r.FilesEdited++
}

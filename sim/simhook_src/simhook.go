// Package simhook is written into a scratch copy of huderlem/poryscript by
// /verif's instrumenter. It is the seam through which the simulator owns every
// source of nondeterminism / faults the compiler meets:
//   - map iteration order (Keys)
//   - the file system (ReadFile)
//   - progress (Tick / Enter / Exit): deterministic hang and runaway-recursion detection
//   - goroutines the compiler starts (GoExit): a panic or a tripped budget inside one is
//     recorded for the caller instead of killing the process. The unchanged tree starts
//     none (GoSites, written by the instrumenter, is 0); the bookkeeping of every seam is
//     goroutine-safe so that a change which introduces them cannot break the seams.
//
// With its zero configuration (no order function, no disk, no budgets) it is
// transparent: canonical (sorted) map order, real file reads, no limits.
package simhook

import (
	"fmt"
	"os"
	"reflect"
	"runtime"
	"sort"
	"sync"
	"sync/atomic"
)

// BudgetExceeded is the sentinel panic raised when a run passes its tick or depth budget.
type BudgetExceeded struct {
	Kind  string
	Ticks int64
	Depth int
}

func (b BudgetExceeded) Error() string {
	return fmt.Sprintf("simhook budget exceeded: %s (ticks=%d depth=%d)", b.Kind, b.Ticks, b.Depth)
}

// Visit records one visit of a map-range site.
type Visit struct {
	Site string
	N    int
	Perm string
}

var (
	Ticks       int64
	TickBudget  int64
	Depth       int
	MaxDepth    int
	DepthBudget int

	// OrderFn chooses, for the visit-th visit of a map-range site with n keys,
	// a permutation of 0..n-1 (nil = identity = canonical sorted order).
	OrderFn func(site string, visit int, n int) []int
	// Visits is the log of site visits of the current compilation (n>=2 only).
	Visits     []Visit
	VisitCount int
	LogVisits  bool
	// Unordered counts visits whose key type has no canonical order (pointer,
	// interface, ...): there the runtime order is kept and only permuted.
	Unordered int

	// ReadFileFn, when set, is the simulated disk.
	ReadFileFn func(path string) ([]byte, error)
	DiskReads  int
)

var mu sync.Mutex // guards the bookkeeping of Keys and the goroutine failure record

var goFailure interface{} // first panic value recovered in a goroutine started by the compiler

// GoExit is deferred at the top of every `go func() { ... }()` body of the compiler.
func GoExit() {
	if r := recover(); r != nil {
		mu.Lock()
		if goFailure == nil {
			goFailure = r
		}
		mu.Unlock()
		select {
		case GoFailed <- struct{}{}:
		default:
		}
	}
}

// GoFailed is signalled when a goroutine of the compiler ended in a panic: the goroutines that
// wait for it may now be parked for good, and the caller need not wait for the stall detector.
var GoFailed = make(chan struct{}, 1)

// TakeGoFailure returns (and clears) the first panic recovered in a goroutine since Reset.
func TakeGoFailure() interface{} {
	mu.Lock()
	defer mu.Unlock()
	r := goFailure
	goFailure = nil
	return r
}

// Reset clears the per-compilation counters (not the configuration).
func Reset() {
	mu.Lock()
	goFailure = nil
	mu.Unlock()
	Yields = 0
	atomic.StoreInt64(&calls, 0)
	atomic.StoreInt64(&Ticks, 0)
	atomic.StoreInt64(&depth, 0)
	Depth = 0
	MaxDepth = 0
	Visits = Visits[:0]
	VisitCount = 0
	Unordered = 0
	DiskReads = 0
}

// Tick is inserted at the top of every loop body of the compiler. The counters are
// updated atomically so that a change which introduces goroutines cannot corrupt them.
func Tick() {
	n := atomic.AddInt64(&Ticks, 1)
	if TickBudget > 0 && n > TickBudget {
		panic(BudgetExceeded{Kind: "ticks", Ticks: n, Depth: int(atomic.LoadInt64(&depth))})
	}
	if YieldFn != nil && YieldFn(n) {
		Yields++
		runtime.Gosched()
	}
}

// YieldFn, when set (only for trees that start goroutines, which then run on ONE processor),
// decides from the tick number whether the running goroutine hands the processor to the next
// runnable one here: the seeded part of the schedule.
var YieldFn func(tick int64) bool

// Yields counts the hand-overs of the current compilation.
var Yields int64

var depth int64

// Enter / Exit bracket every function of lexer, parser, emitter.
func Enter() {
	d := int(atomic.AddInt64(&depth, 1))
	Depth = d
	if d > MaxDepth {
		MaxDepth = d
	}
	if DepthBudget > 0 && d > DepthBudget {
		panic(BudgetExceeded{Kind: "depth", Ticks: atomic.LoadInt64(&Ticks), Depth: d})
	}
	if YieldFn != nil {
		// function entries are hand-over points too (numbered apart from the loop ticks)
		if c := atomic.AddInt64(&calls, 1); YieldFn(-c) {
			Yields++
			runtime.Gosched()
		}
	}
}

var calls int64

func Exit() { Depth = int(atomic.AddInt64(&depth, -1)) }

// ReadFile replaces ioutil.ReadFile / os.ReadFile in library packages.
func ReadFile(path string) ([]byte, error) {
	mu.Lock()
	DiskReads++
	mu.Unlock()
	if ReadFileFn != nil {
		return ReadFileFn(path)
	}
	return os.ReadFile(path)
}

// Seq is one visit of a map-range site: the map and its keys in the chosen order.
type Seq[K comparable, V any] struct {
	M    map[K]V
	Keys []K
}

// Range evaluates the ranged expression exactly once and fixes the order of the visit.
func Range[K comparable, V any](m map[K]V, site string) Seq[K, V] {
	return Seq[K, V]{M: m, Keys: Keys(m, site)}
}

// RangeK / RangeKV start a visit and also hand back zero values, so that the rewritten
// loop can declare its key / value variables ONCE in the loop header - like the `range`
// clause it replaces under the per-loop variable semantics of the module's Go version
// (a closure or pointer that captures the loop variable behaves exactly as before).
func RangeK[K comparable, V any](m map[K]V, site string) (int, Seq[K, V], K) {
	var k K
	return 0, Range(m, site), k
}

func RangeKV[K comparable, V any](m map[K]V, site string) (int, Seq[K, V], K, V) {
	var k K
	var v V
	return 0, Range(m, site), k, v
}

// Keys returns the keys of m in the order the simulator chose for this visit.
// Every order it can return is an order the Go runtime may produce.
func Keys[K comparable, V any](m map[K]V, site string) []K {
	keys := make([]K, 0, len(m))
	for k := range m {
		keys = append(keys, k)
	}
	n := len(keys)
	if n < 2 {
		return keys
	}
	sorted := canonicalSort(keys)
	mu.Lock()
	defer mu.Unlock()
	if !sorted {
		Unordered++
	}
	visit := VisitCount
	VisitCount++
	var perm []int
	if OrderFn != nil {
		perm = OrderFn(site, visit, n)
	}
	if LogVisits {
		Visits = append(Visits, Visit{Site: site, N: n, Perm: fmt.Sprint(perm)})
	}
	if perm == nil {
		return keys
	}
	if len(perm) != n {
		panic(fmt.Sprintf("simhook: bad permutation length %d for %d keys at %s", len(perm), n, site))
	}
	out := make([]K, n)
	for i, p := range perm {
		out[i] = keys[p]
	}
	return out
}

func canonicalSort[K comparable](keys []K) bool {
	switch ks := any(keys).(type) {
	case []int:
		sort.Ints(ks)
		return true
	case []string:
		sort.Strings(ks)
		return true
	}
	rt := reflect.TypeOf(keys).Elem()
	if !orderable(rt) {
		return false
	}
	strs := make([]string, len(keys))
	for i, k := range keys {
		strs[i] = fmt.Sprintf("%#v", k)
	}
	idx := make([]int, len(keys))
	for i := range idx {
		idx[i] = i
	}
	sort.SliceStable(idx, func(a, b int) bool { return strs[idx[a]] < strs[idx[b]] })
	tmp := make([]K, len(keys))
	for i, j := range idx {
		tmp[i] = keys[j]
	}
	copy(keys, tmp)
	return true
}

func orderable(t reflect.Type) bool {
	switch t.Kind() {
	case reflect.Bool, reflect.Int, reflect.Int8, reflect.Int16, reflect.Int32, reflect.Int64,
		reflect.Uint, reflect.Uint8, reflect.Uint16, reflect.Uint32, reflect.Uint64, reflect.Uintptr,
		reflect.Float32, reflect.Float64, reflect.String:
		return true
	case reflect.Array:
		return orderable(t.Elem())
	case reflect.Struct:
		for i := 0; i < t.NumField(); i++ {
			if !orderable(t.Field(i).Type) {
				return false
			}
		}
		return true
	}
	return false
}

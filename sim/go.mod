module verifsim

go 1.21

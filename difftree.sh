#!/bin/bash
# difftree.sh <patch> [prop] [count]: does the patch change ANY emitted text on generated programs?
# (helper to classify a mutant as equivalent). Prints the number of differing runs.
set -u
patch="$(realpath "$1")"; prop="${2:-C05}"; n="${3:-30000}"
w="$(mktemp -d /var/tmp/verif.diff.XXXXXX)"; trap 'rm -rf "$w"' EXIT
mkdir -p "$w/repo"; (cd /repo && git archive HEAD) | tar -x -C "$w/repo"
/verif/check.sh build "$w/a" >/dev/null || exit 2
(cd "$w/repo" && patch -p1 -s < "$patch") || exit 2
VERIF_REPO="$w/repo" /verif/check.sh build "$w/b" >/dev/null || exit 2
"$w/a/verifsim" outs -prop "$prop" -count "$n" > "$w/a.txt"
"$w/b/verifsim" outs -prop "$prop" -count "$n" > "$w/b.txt"
echo "runs with different output: $(diff "$w/a.txt" "$w/b.txt" | grep -c '^>') of $n"
diff "$w/a.txt" "$w/b.txt" | grep '^>' | head -3
